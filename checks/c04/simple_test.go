//go:build verif

package cache

import (
	"context"
	"fmt"
	"math"
	"net"
	"os"
	"strings"
	"testing"
	"testing/synctest"
	"time"

	"github.com/AdguardTeam/AdGuardDNS/internal/dnsserver"
	"github.com/AdguardTeam/AdGuardDNS/internal/dnsserver/zzverif/vdns"
	"github.com/AdguardTeam/AdGuardDNS/internal/dnsserver/zzverif/vrt"
	"github.com/miekg/dns"
)

// c04Kinds are the upstream answer kinds of the primary name.
var c04Kinds = []string{"ok", "nodatasoa", "nodatanosoa", "nx", "nxsoahi", "servfail", "refused", "tc", "ttl0", "cname"}

// c04Answer is the scripted upstream: a pure function of (lower-cased name,
// qtype, qclass, DO).  The primary name "p." behaves as kind; every other
// name as "ok".  Record data encode (qtype, qclass, DO) so that an answer
// served for the wrong key is visible.
func c04Answer(kind string, req *dns.Msg) (resp *dns.Msg) {
	q := req.Question[0]
	name := strings.ToLower(q.Name)
	do := 0
	if opt := req.IsEdns0(); opt != nil && opt.Do() {
		do = 1
	}
	if name != "p." {
		kind = "ok"
	}
	resp = &dns.Msg{}
	resp.SetReply(req)
	resp.RecursionAvailable = true
	resp.AuthenticatedData = do == 1
	if ropt := req.IsEdns0(); ropt != nil {
		// A real upstream echoes the OPT record and the DO bit (RFC 3225).
		resp.SetEdns0(1232, ropt.Do())
	}
	cl := dns.Class(q.Qclass).String()
	mark := fmt.Sprintf("10.%d.%d.%d", q.Qtype%250, q.Qclass%250, do)
	rec := func(ttl int) dns.RR {
		if q.Qtype == dns.TypeAAAA {
			return vdns.MustRR(fmt.Sprintf("%s %d %s AAAA 2001:db8::%d:%d:%d", name, ttl, cl, q.Qtype, q.Qclass, do))
		}

		return vdns.MustRR(fmt.Sprintf("%s %d %s A %s", name, ttl, cl, mark))
	}
	soa := func(ttl, minttl int) dns.RR {
		return vdns.MustRR(fmt.Sprintf("%s %d %s SOA ns.%s hm.%s %d%d%d 3600 600 86400 %d", name, ttl, cl, name, name, q.Qtype, q.Qclass%250, do, minttl))
	}
	switch kind {
	case "ok":
		a := rec(10)
		b := rec(30)
		if q.Qtype == dns.TypeAAAA {
			b.(*dns.AAAA).AAAA[15] ^= 0x80
		} else {
			b.(*dns.A).A = net.IP{10, byte(q.Qtype % 250), byte(q.Qclass % 250), byte(do) | 0x80}
		}
		resp.Answer = []dns.RR{a, b}
	case "nodatasoa":
		resp.Ns = []dns.RR{soa(20, 5)}
	case "nodatanosoa":
		resp.Ns = []dns.RR{vdns.MustRR(fmt.Sprintf("%s 20 %s NS ns.%s", name, cl, name))}
	case "nx":
		resp.Rcode = dns.RcodeNameError
		resp.Ns = []dns.RR{soa(20, 20)}
	case "nxsoahi":
		// SOA whose own TTL is below its MINIMUM field.
		resp.Rcode = dns.RcodeNameError
		resp.Ns = []dns.RR{soa(10, 3600)}
	case "servfail":
		resp.Rcode = dns.RcodeServerFailure
	case "refused":
		resp.Rcode = dns.RcodeRefused
		resp.Ns = []dns.RR{soa(20, 20)}
	case "tc":
		resp.Truncated = true
		resp.Answer = []dns.RR{rec(10)}
	case "ttl0":
		resp.Answer = []dns.RR{rec(0)}
	case "cname":
		resp.Answer = []dns.RR{
			vdns.MustRR(fmt.Sprintf("%s 7 %s CNAME t%d-%d-%d.%s", name, cl, q.Qtype, q.Qclass%250, do, name)),
		}
		t := rec(12)
		t.Header().Name = fmt.Sprintf("t%d-%d-%d.%s", q.Qtype, q.Qclass%250, do, name)
		resp.Answer = append(resp.Answer, t)
	}

	return resp
}

// c04Event is one event of a history: a query shape or a time step.
type c04Event struct {
	Name    string  `json:"name,omitempty"`
	QType   uint16  `json:"qtype,omitempty"`
	QClass  uint16  `json:"qclass,omitempty"`
	DO      bool    `json:"do,omitempty"`
	AD      bool    `json:"ad,omitempty"`
	CD      bool    `json:"cd,omitempty"`
	Advance float64 `json:"advance,omitempty"`
}

func (e c04Event) req(id uint16) (m *dns.Msg) {
	m = vdns.NewReq(id, e.Name, e.QType, e.QClass)
	m.AuthenticatedData = e.AD
	m.CheckingDisabled = e.CD
	if e.DO {
		m.SetEdns0(1232, true)
	}

	return m
}

var c04Alphabet = []c04Event{
	{Name: "p.", QType: dns.TypeA, QClass: dns.ClassINET},
	{Advance: 0.41},
	{Advance: 9.62},
	{Name: "p.", QType: dns.TypeA, QClass: dns.ClassINET, DO: true},
	{Name: "p.", QType: dns.TypeAAAA, QClass: dns.ClassINET},
	{Name: "P.", QType: dns.TypeA, QClass: dns.ClassINET, AD: true, CD: true},
	{Advance: 4.07},
	{Name: "p.", QType: dns.TypeA, QClass: dns.ClassCHAOS},
	{Name: "o.", QType: dns.TypeA, QClass: dns.ClassINET},
	{Advance: 0.63},
	{Advance: 29.03},
	{Advance: 301.3},
}

// c04Case is one history.
type c04Case struct {
	Kind     string `json:"kind"`
	Override bool   `json:"override_min_ttl_20s"`
	Events   []int  `json:"events"`
}

// c04Call is a recorded upstream call.
type c04Call struct {
	at   time.Time
	resp *dns.Msg
}

type c04Upstream struct {
	kind  string
	calls int
	last  map[string]c04Call
}

func c04Key(req *dns.Msg) string {
	q := req.Question[0]
	do := false
	if opt := req.IsEdns0(); opt != nil {
		do = opt.Do()
	}

	return fmt.Sprintf("%s|%d|%d|%v", strings.ToLower(q.Name), q.Qtype, q.Qclass, do)
}

func (u *c04Upstream) ServeDNS(ctx context.Context, rw dnsserver.ResponseWriter, req *dns.Msg) (err error) {
	u.calls++
	resp := c04Answer(u.kind, req)
	if u.last != nil {
		u.last[c04Key(req)] = c04Call{at: time.Now(), resp: resp.Copy()}
	}

	return rw.WriteMsg(ctx, req, resp)
}

var (
	c04Local  = &net.UDPAddr{IP: net.IP{127, 0, 0, 1}, Port: 53}
	c04Remote = &net.UDPAddr{IP: net.IP{192, 0, 2, 1}, Port: 3333}
)

const c04MinTTL = 20 * time.Second

func c04New(kind string, override bool, track bool) (h dnsserver.Handler, u *c04Upstream) {
	u = &c04Upstream{kind: kind}
	if track {
		u.last = map[string]c04Call{}
	}
	mw := NewMiddleware(&MiddlewareConfig{Count: 100, MinTTL: c04MinTTL, OverrideTTL: override})

	return mw.Wrap(u), u
}

// c04CheckTTL checks the TTL bound and the expiry rule for a response that
// was served without consulting upstream.  src is the upstream response it
// must stem from, age its age.
func c04CheckTTL(pfx string, got, src *dns.Msg, age time.Duration, override bool, minTTL time.Duration) (fs []vrt.Finding) {
	ageS := age.Seconds()
	var maxOrig float64
	check := func(sec string, gs, ss []dns.RR, ovr bool) {
		var g2 []dns.RR
		for _, rr := range gs {
			if rr.Header().Rrtype != dns.TypeOPT {
				g2 = append(g2, rr)
			}
		}
		var s2 []dns.RR
		for _, rr := range ss {
			if rr.Header().Rrtype != dns.TypeOPT {
				s2 = append(s2, rr)
			}
		}
		if len(g2) != len(s2) {
			return // reported by the differential oracle
		}
		for i, rr := range g2 {
			orig := float64(s2[i].Header().Ttl)
			_ = ovr
			if override {
				orig = math.Max(orig, minTTL.Seconds())
			}
			maxOrig = math.Max(maxOrig, orig)
			bound := math.Max(0, math.Floor(orig-ageS+0.5+1e-6))
			if float64(rr.Header().Ttl) > bound {
				fs = append(fs, vrt.F(pfx+"ttl-exceeds-remaining/"+sec,
					"%s record %q served from cache with TTL %d at age %.2fs; original TTL %.0f allows at most %.0f",
					sec, vdns.RRString(rr, false), rr.Header().Ttl, ageS, orig, bound)...)

				return
			}
		}
	}
	check("answer", got.Answer, src.Answer, true)
	check("authority", got.Ns, src.Ns, false)
	check("additional", got.Extra, src.Extra, false)
	if src.Rcode == dns.RcodeServerFailure {
		maxOrig = math.Max(maxOrig, 300)
	}
	if ageS > maxOrig+1e-6 && len(fs) == 0 {
		fs = append(fs, vrt.F(pfx+"served-after-expiry", "answer %s served from cache at age %.2fs, after the largest TTL (%.0fs) of the stored answer", vdns.Canon(got, true), ageS, maxOrig)...)
	}

	return fs
}

// c04Uncacheable reports whether the upstream answer may never be cached by
// the statement.
func c04Uncacheable(src *dns.Msg) bool {
	if src.Truncated {
		return true
	}
	switch src.Rcode {
	case dns.RcodeSuccess, dns.RcodeNameError, dns.RcodeServerFailure:
	default:
		return true
	}
	for _, rrs := range [][]dns.RR{src.Answer, src.Ns, src.Extra} {
		for _, rr := range rrs {
			if rr.Header().Rrtype != dns.TypeOPT && rr.Header().Ttl == 0 {
				return true
			}
		}
	}
	if src.Rcode == dns.RcodeSuccess && len(src.Answer) == 0 {
		for _, rr := range src.Ns {
			if rr.Header().Rrtype == dns.TypeSOA {
				return false
			}
		}

		return true // incomplete NODATA
	}

	return false
}

func c04RunCase(r *vrt.Run, c c04Case) (fs []vrt.Finding) {
	h, u := c04New(c.Kind, c.Override, true)
	ctx := context.Background()
	var obs []string
	for step, ei := range c.Events {
		e := c04Alphabet[ei]
		if e.Advance > 0 {
			time.Sleep(time.Duration(e.Advance * float64(time.Second)))

			continue
		}
		req := e.req(uint16(1000 + step))
		key := c04Key(req)
		prev, hadPrev := u.last[key]
		before := u.calls
		rw := dnsserver.NewNonWriterResponseWriter(c04Local, c04Remote)
		err := h.ServeDNS(ctx, rw, req.Copy())
		r.Trans(1)
		consulted := u.calls > before
		got := rw.Msg()

		// Fresh twin: a new middleware asked the same single request.
		fh, _ := c04New(c.Kind, c.Override, false)
		frw := dnsserver.NewNonWriterResponseWriter(c04Local, c04Remote)
		ferr := fh.ServeDNS(ctx, frw, req.Copy())
		want := frw.Msg()
		if (err != nil) != (ferr != nil) {
			return append(fs, vrt.F("simple/error-differs", "step %d %+v: warm err=%v fresh err=%v", step, e, err, ferr)...)
		}
		gs, ws := vdns.Canon(got, false), vdns.Canon(want, false)
		obs = append(obs, fmt.Sprintf("%v:%s", consulted, gs))
		if gs != ws {
			what := "records"
			if got != nil && want != nil {
				switch {
				case vdns.Flags(got) != vdns.Flags(want):
					what = "flags"
				case vdns.Question(got) != vdns.Question(want):
					what = "question"
				case got.Id != want.Id:
					what = "id"
				}
			}

			return append(fs, vrt.F("simple/cached-differs-from-fresh/"+what,
				"kind=%s override=%v step %d query %+v (upstream consulted: %v):\n   warm : %s\n   fresh: %s", c.Kind, c.Override, step, e, consulted, gs, ws)...)
		}
		if consulted {
			r.Class("miss " + c.Kind)

			continue
		}
		r.Class("hit " + c.Kind)
		if !hadPrev {
			return append(fs, vrt.F("simple/served-without-upstream", "step %d query %+v answered without any upstream call for its key", step, e)...)
		}
		if c04Uncacheable(prev.resp) {
			fs = append(fs, vrt.F("simple/uncacheable-answer-cached", "kind=%s step %d query %+v: answer %s was served from cache", c.Kind, step, e, gs)...)
		}
		age := time.Since(prev.at)
		fs = append(fs, c04CheckTTL("simple/", got, prev.resp, age, c.Override, c04MinTTL)...)
		if len(fs) > 0 {
			return fs
		}
	}
	r.State(c.Kind + fmt.Sprint(c.Override) + strings.Join(obs, "\n"))

	return fs
}

func TestVerifC04Simple(t *testing.T) {
	r := vrt.Start("C04")
	depth := vrt.Pick(r, 4, 5)
	r.Bound("simple_depth", depth)
	synctest.Test(t, func(t *testing.T) {
		vrt.Part(r, "simple", func(emit func(c04Case)) {
			for _, kind := range c04Kinds {
				nAlpha := len(c04Alphabet)
				if kind != "servfail" {
					nAlpha-- // the 301 s step only matters for SERVFAIL
				}
				for _, ovr := range []bool{false, true} {
					vrt.Sequences(nAlpha, 1, depth, func(seq []int) {
						// Histories ending in a time step add nothing.
						if c04Alphabet[seq[len(seq)-1]].Advance > 0 {
							return
						}
						emit(c04Case{Kind: kind, Override: ovr, Events: append([]int{}, seq...)})
					})
				}
			}
		}, func(c c04Case) []vrt.Finding { return c04RunCase(r, c) })
	})
	r.Finish()
	os.Exit(0)
}
