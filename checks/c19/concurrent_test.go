//go:build verif

package websvc

import (
	"bufio"
	"context"
	"fmt"
	"io"
	"net/http"
	"net/http/httptest"
	"net/url"
	"os"
	"runtime"
	"sort"
	"strings"
	"testing"
	"time"

	"github.com/AdguardTeam/AdGuardDNS/internal/agdtest"
	"github.com/AdguardTeam/AdGuardDNS/internal/dnsserver/zzverif/vrt"
	"github.com/AdguardTeam/AdGuardDNS/internal/dnsserver/zzverif/xsched"
)

// C19, unit "concurrent": several clients use the linked-IP proxy at once.
// The transport of a reverse proxy reads the outgoing request (URL, method,
// headers) when it writes it to the backend connection, i.e. after the
// handler's Rewrite function has returned and possibly after other requests
// have passed through the same handler.  The scripted backend therefore looks
// at the outgoing request only after a scheduling point.  Every interleaving
// within the preemption bound; the backend must receive exactly the (method,
// path and query, client address) triples that the same requests produce
// alone.

type c19cReq struct {
	Method string `json:"method"`
	Target string `json:"target"`
	Remote string `json:"remote"`
}

var c19cAlphabet = []c19cReq{
	{"GET", "/linkip/devA/encA", "192.0.2.1:1111"},
	{"POST", "/ddns/devB/encB/b.example", "192.0.2.2:2222"},
	{"GET", "/linkip/devC/encC/status?x=1", "[2001:db8::3]:3333"},
	{"POST", "/linkip/devD/encD", "192.0.2.4:4444"},
	{"GET", "/linkip/devA/encA", "192.0.2.5:5555"},
}

// c19cBackend records what the backend is sent, as the transport would write
// it: after a scheduling point.
type c19cBackend struct {
	got []string
}

func c19cTriple(r *http.Request) string {
	return fmt.Sprintf("%s %s from %q host=%s", r.Method, r.URL.RequestURI(), r.Header.Values("X-Connecting-Ip"), r.URL.Host)
}

func (b *c19cBackend) RoundTrip(r *http.Request) (resp *http.Response, err error) {
	xsched.Yield("transport: connection ready, about to write the request")
	b.got = append(b.got, c19cTriple(r))
	xsched.Yield("transport: request written, waiting for the response")

	return &http.Response{
		StatusCode: http.StatusOK, Status: "200 OK", Proto: "HTTP/1.1", ProtoMajor: 1, ProtoMinor: 1,
		Header: http.Header{"Server": []string{"backend"}},
		Body:   io.NopCloser(strings.NewReader("backend-body " + c19cTriple(r))), Request: r,
	}, nil
}

func c19cNew() (h http.Handler, be *c19cBackend) {
	apiURL, _ := url.Parse("http://backend.example")
	h = linkedIPHandler(apiURL, &agdtest.ErrorCollector{OnCollect: func(_ context.Context, _ error) {}}, "verif", 2*time.Second)
	be = &c19cBackend{}
	h.(*linkedIPProxy).httpProxy.Transport = be

	return h, be
}

func c19cServe(h http.Handler, q c19cReq) (status int, body string) {
	raw := q.Method + " " + q.Target + " HTTP/1.1\r\nHost: link.example\r\n\r\n"
	req, err := http.ReadRequest(bufio.NewReader(strings.NewReader(raw)))
	if err != nil {
		vrt.Fatalf("c19: unparsable request %q: %v", raw, err)
	}
	req.RemoteAddr = q.Remote
	rec := httptest.NewRecorder()
	h.ServeHTTP(rec, req)

	return rec.Code, rec.Body.String()
}

type c19cEnv struct {
	be     *c19cBackend
	status []int
	bodies []string
}

func c19cSetup(reqs []int, s *xsched.Sched) *c19cEnv {
	h, be := c19cNew()
	env := &c19cEnv{be: be, status: make([]int, len(reqs)), bodies: make([]string, len(reqs))}
	for i, ri := range reqs {
		s.Go(fmt.Sprintf("client%d:%s %s", i, c19cAlphabet[ri].Method, c19cAlphabet[ri].Target), func() {
			env.status[i], env.bodies[i] = c19cServe(h, c19cAlphabet[ri])
		})
	}

	return env
}

func c19cCheck(reqs []int, solo map[int][2]string, env *c19cEnv, x *xsched.Exec) []vrt.Finding {
	if x.Sched.Panicked != "" {
		return vrt.F("concurrent/panic", "%s", x.Sched.Panicked)
	}
	if x.Sched.Deadlock || x.Sched.LimitHit {
		return vrt.F("concurrent/deadlock", "blocked %v", x.Sched.Blocked)
	}
	var want []string
	for i, ri := range reqs {
		want = append(want, solo[ri][0])
		if env.bodies[i] != solo[ri][1] || env.status[i] != http.StatusOK {
			return vrt.F("concurrent/client-gets-another-requests-response", "client %d (%+v) received status %d body %q; alone it receives %q\nschedule:\n%s", i, c19cAlphabet[ri], env.status[i], env.bodies[i], solo[ri][1], x.Sched.Describe())
		}
	}
	got := append([]string{}, env.be.got...)
	sort.Strings(got)
	sort.Strings(want)
	if fmt.Sprint(got) != fmt.Sprint(want) {
		return vrt.F("concurrent/backend-request-differs-from-solo", "requests %v in flight together: the backend was sent\n   %q\nbut the same requests one at a time send\n   %q\n(a client's address attached to another client's path, or a method/path pair nobody sent)\nschedule:\n%s", reqs, got, want, x.Sched.Describe())
	}

	return nil
}

type c19cCase struct {
	Reqs    []int `json:"requests"`
	Choices []int `json:"choices"`
}

func TestVerifC19Concurrent(t *testing.T) {
	r := vrt.Start("C19")
	// Solo observations: every alphabet request alone on a fresh handler.
	solo := map[int][2]string{}
	for i, q := range c19cAlphabet {
		h, be := c19cNew()
		st, body := c19cServe(h, q)
		if st != http.StatusOK || len(be.got) != 1 {
			vrt.Fatalf("c19: alphabet request %+v is not forwarded alone (status %d, %d backend requests)", q, st, len(be.got))
		}
		solo[i] = [2]string{be.got[0], body}
		r.Note("solo %+v -> %s", q, be.got[0])
	}
	var rc c19cCase
	if r.ReplayCase("concurrent", &rc) {
		var env *c19cEnv
		x := xsched.Replay(rc.Choices, func(s *xsched.Sched) { env = c19cSetup(rc.Reqs, s) })
		r.Eval()
		r.Report("concurrent", rc, c19cCheck(rc.Reqs, solo, env, x))
	}
	if r.ShouldRun() {
		shard, nshards := r.NShards()
		var scenarios [][]int
		n := len(c19cAlphabet)
		for a := 0; a < n; a++ {
			for b := a; b < n; b++ {
				scenarios = append(scenarios, []int{a, b})
			}
		}
		if r.Thorough() {
			for a := 0; a < n; a++ {
				for b := a + 1; b < n; b++ {
					for c := b + 1; c < n; c++ {
						scenarios = append(scenarios, []int{a, b, c})
					}
				}
			}
		}
		r.Bound("concurrent_scenarios", len(scenarios))
		// The handler's own statements (ServeHTTP and the Rewrite function) are
		// scheduling points too, so the interleavings are bounded by
		// preemptions rather than explored without a bound.
		r.Bound("concurrent_preemptions", vrt.Pick(r, "3", "pairs 4, triples 2"))
		execs := 0
		for si, sc := range scenarios {
			if si%nshards != shard {
				continue
			}
			var env *c19cEnv
			found := 0
			pre := vrt.Pick(r, 3, 4)
			if len(sc) > 2 {
				pre = 2
			}
			st := xsched.Explore(xsched.Config{MaxPreemptions: pre, MaxDeviations: 0, Stop: r.Expired},
				func(s *xsched.Sched) {
					if execs++; execs%5000 == 0 {
						runtime.GC()
					}
					env = c19cSetup(sc, s)
				},
				func(x *xsched.Exec) bool {
					r.Eval()
					r.Trans(len(x.Sched.Trace))
					fs := c19cCheck(sc, solo, env, x)
					r.Class(fmt.Sprintf("concurrent %d requests", len(sc)))
					r.State(fmt.Sprint(sc, env.be.got))
					if len(fs) > 0 {
						r.Report("concurrent", c19cCase{Reqs: sc, Choices: x.Choices}, fs)
						found++
					}

					return found < 1
				})
			if st.Stopped {
				r.Note("scenario %v stopped by deadline after %d executions", sc, st.Executions)
			}
		}
	}
	// One long-lived handler, requests one after another from peers whose
	// addresses are textual prefixes of each other (10.0.0.1, 10.0.0.12, ...),
	// of both families, and from the same peer on another port: whatever the
	// handler remembers between requests, the backend must be sent for each
	// request what a fresh handler sends for it.
	peers := []string{"10.0.0.1:40001", "10.0.0.12:40002", "10.0.0.123:40003", "10.0.0.1:50001", "[2001:db8::1]:40004", "[2001:db8::12]:40005", "1.0.0.1:40006", "110.0.0.1:40007"}
	targets := []c19cReq{{Method: "GET", Target: "/linkip/devA/encA"}, {Method: "POST", Target: "/ddns/devB/encB/b.example"}}
	hdepth := vrt.Pick(r, 3, 4)
	r.Bound("peer_history_depth", hdepth)
	r.Bound("peer_history_peers", len(peers))
	soloPeer := map[string]string{}
	for _, pa := range peers {
		for _, tq := range targets {
			h, be := c19cNew()
			q := tq
			q.Remote = pa
			if st, _ := c19cServe(h, q); st != http.StatusOK || len(be.got) != 1 {
				vrt.Fatalf("c19: %+v is not forwarded alone (status %d)", q, st)
			}
			soloPeer[pa+" "+tq.Target] = be.got[0]
		}
	}
	vrt.Part(r, "peer-history", func(emit func(c19hCase)) {
		vrt.Sequences(len(peers)*len(targets), 2, hdepth, func(seq []int) { emit(c19hCase{Events: append([]int{}, seq...)}) })
	}, func(c c19hCase) []vrt.Finding {
		h, be := c19cNew()
		for i, e := range c.Events {
			q := targets[e%len(targets)]
			q.Remote = peers[e/len(targets)]
			st, _ := c19cServe(h, q)
			r.Trans(1)
			if st != http.StatusOK || len(be.got) != i+1 {
				return vrt.F("peer-history/request-not-forwarded", "request %d (%+v) of the history %v: status %d, %d requests at the backend", i, q, c.Events, st, len(be.got))
			}
			if want := soloPeer[q.Remote+" "+q.Target]; be.got[i] != want {
				return vrt.F("peer-history/backend-request-depends-on-earlier-requests", "request %d (%+v) after %d earlier requests on the same handler: the backend was sent\n   %s\nbut a fresh handler sends\n   %s", i, q, i, be.got[i], want)
			}
		}
		r.Class(fmt.Sprintf("peer-history depth %d", len(c.Events)))
		r.State(fmt.Sprint("ph", c.Events))

		return nil
	})
	r.Finish()
	os.Exit(0)
}

type c19hCase struct {
	// Events are indexes into peers x targets.
	Events []int `json:"events"`
}
