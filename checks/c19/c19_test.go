//go:build verif

package websvc

import (
	"bufio"
	"context"
	"fmt"
	"io"
	"net"
	"net/http"
	"net/http/httptest"
	"net/url"
	"os"
	"sort"
	"strings"
	"testing"
	"time"

	"github.com/AdguardTeam/AdGuardDNS/internal/agdtest"
	"github.com/AdguardTeam/AdGuardDNS/internal/dnsserver/zzverif/vrt"
)

// c19Backend records what reaches the backend.
type c19Backend struct {
	reqs []*http.Request
}

func (b *c19Backend) RoundTrip(r *http.Request) (resp *http.Response, err error) {
	b.reqs = append(b.reqs, r)

	return &http.Response{
		StatusCode: http.StatusOK,
		Status:     "200 OK",
		Proto:      "HTTP/1.1",
		ProtoMajor: 1,
		ProtoMinor: 1,
		Header:     http.Header{"Server": []string{"backend"}},
		Body:       io.NopCloser(strings.NewReader("backend-body")),
		Request:    r,
	}, nil
}

// c19Case is one raw request.
type c19Case struct {
	Method  string   `json:"method"`
	Target  string   `json:"target"`
	Headers []string `json:"headers"`
	Remote  string   `json:"remote"`
}

const c19Forged = "6.6.6.6"

// c19RemoveDots is RFC 3986 5.2.4 remove_dot_segments on an escaped path in
// which %2e / %2E count as ".".
func c19RemoveDots(p string) string {
	p = strings.ReplaceAll(strings.ReplaceAll(p, "%2e", "."), "%2E", ".")
	var out []string
	segs := strings.Split(p, "/")
	// segs[0] is the empty string before the leading slash.
	for i := 1; i < len(segs); i++ {
		s := segs[i]
		last := i == len(segs)-1
		switch s {
		case ".":
			if last {
				out = append(out, "")
			}
		case "..":
			if len(out) > 0 {
				out = out[:len(out)-1]
			}
			if last {
				out = append(out, "")
			}
		default:
			out = append(out, s)
		}
	}

	return "/" + strings.Join(out, "/")
}

// c19Documented reports whether (method, decoded path) is one of the four
// documented shapes, and whether the path is "clean" (no empty or dot
// segments), in which case it must be forwarded.
func c19Documented(method, path string) (doc, clean bool) {
	if !strings.HasPrefix(path, "/") {
		return false, false
	}
	parts := strings.Split(path[1:], "/")
	clean = true
	for _, p := range parts {
		if p == "" || p == "." || p == ".." {
			clean = false
		}
	}
	n := len(parts)
	switch method {
	case "GET":
		doc = parts[0] == "linkip" && (n == 3 || (n == 4 && parts[3] == "status"))
	case "POST":
		doc = (parts[0] == "ddns" && n == 4) || (parts[0] == "linkip" && n == 3)
	}

	return doc, clean
}

func c19Run(h http.Handler, be *c19Backend, c c19Case) (fs []vrt.Finding, obs string) {
	raw := c.Method + " " + c.Target + " HTTP/1.1\r\nHost: link.example\r\n"
	for _, hd := range c.Headers {
		raw += hd + "\r\n"
	}
	raw += "\r\n"
	req, err := http.ReadRequest(bufio.NewReader(strings.NewReader(raw)))
	if err != nil {
		return nil, "unparsable"
	}
	req.RemoteAddr = c.Remote
	be.reqs = be.reqs[:0]
	rec := httptest.NewRecorder()
	decodedPath := req.URL.Path
	if p := vrt.Catch(func() { h.ServeHTTP(rec, req) }); p != "" {
		return vrt.F("panic", "handler panicked on %q: %s", raw, p), "panic"
	}
	doc, clean := c19Documented(c.Method, decodedPath)
	wantIP, _, _ := strings.Cut(strings.TrimPrefix(c.Remote, "["), "]")
	if !strings.HasPrefix(c.Remote, "[") {
		wantIP, _, _ = strings.Cut(c.Remote, ":")
	}
	// A peer address that cannot be split into host and port (possible behind
	// a wrapping or non-TCP listener): there is no real client address to
	// pass on, so nothing may reach the backend.
	if _, _, serr := net.SplitHostPort(c.Remote); serr != nil {
		if len(be.reqs) > 0 {
			return vrt.F("forwarded-without-real-client-address", "%s %s from the unparsable peer address %q with headers %q reached the backend with X-Connecting-IP %q", c.Method, c.Target, c.Remote, c.Headers, be.reqs[0].Header.Values("X-Connecting-Ip")), "fwd-unparsable-peer"
		}

		return nil, fmt.Sprintf("local %d unparsable-peer", rec.Code)
	}
	if len(be.reqs) > 1 {
		return vrt.F("backend-contacted-twice", "%s %s: %d backend requests", c.Method, c.Target, len(be.reqs)), "twice"
	}
	if len(be.reqs) == 0 {
		obs = fmt.Sprintf("local %d", rec.Code)
		if doc && clean {
			fs = append(fs, vrt.F("documented-not-forwarded", "%s %s is a documented shape but the backend was not contacted (status %d)", c.Method, c.Target, rec.Code)...)
		}
		if decodedPath == "/robots.txt" {
			if rec.Code != 200 && rec.Code != 404 {
				fs = append(fs, vrt.F("local-status", "%s %s: local status %d", c.Method, c.Target, rec.Code)...)
			}
		} else if !doc && rec.Code != http.StatusNotFound {
			fs = append(fs, vrt.F("local-status", "%s %s: not forwarded but status %d, want 404", c.Method, c.Target, rec.Code)...)
		}
		if strings.Contains(rec.Body.String(), "backend-body") {
			fs = append(fs, vrt.F("backend-body-without-contact", "%s %s", c.Method, c.Target)...)
		}

		return fs, obs
	}
	out := be.reqs[0]
	outPath := out.URL.EscapedPath()
	norm := c19RemoveDots(outPath)
	obs = fmt.Sprintf("fwd %s %s", out.Method, norm)
	if !doc {
		fs = append(fs, vrt.F("undocumented-shape-forwarded", "%s %s (decoded path %q) is not one of the four documented shapes but reached the backend as %s %s", c.Method, c.Target, decodedPath, out.Method, outPath)...)
	}
	if out.Method != c.Method {
		fs = append(fs, vrt.F("method-changed", "%s %s reached the backend as %s", c.Method, c.Target, out.Method)...)
	}
	if want := req.URL.EscapedPath(); outPath != want {
		fs = append(fs, vrt.F("path-re-encoded", "%s %s reached the backend with the path %s: the client sent %s (one level of percent-encoding was removed or added on the way)", c.Method, c.Target, outPath, want)...)
	}
	if !strings.HasPrefix(norm, "/linkip/") && !strings.HasPrefix(norm, "/ddns/") {
		fs = append(fs, vrt.F("path-escapes-prefix", "%s %s reached the backend as %s, which normalises to %s outside /linkip/ and /ddns/", c.Method, c.Target, outPath, norm)...)
	}
	if out.URL.Host != "backend.example" || out.Host != "backend.example" {
		fs = append(fs, vrt.F("backend-host", "%s %s sent to host %q / %q", c.Method, c.Target, out.URL.Host, out.Host)...)
	}
	got := out.Header.Values("X-Connecting-Ip")
	if len(got) != 1 || got[0] != wantIP {
		fs = append(fs, vrt.F("client-ip-header", "%s %s with headers %q from %s: backend got X-Connecting-IP %q, want [%q]", c.Method, c.Target, c.Headers, c.Remote, got, wantIP)...)
	}
	var names []string
	for name := range out.Header {
		names = append(names, name)
	}
	sort.Strings(names)
	for _, name := range names {
		for _, v := range out.Header[name] {
			if strings.Contains(v, c19Forged) {
				fs = append(fs, vrt.F("forged-header-forwarded:"+name, "%s %s with headers %q: backend got %s: %s", c.Method, c.Target, c.Headers, name, v)...)
			}
		}
	}

	return fs, obs
}

func TestVerifC19(t *testing.T) {
	r := vrt.Start("C19")
	apiURL, _ := url.Parse("http://backend.example")
	h := linkedIPHandler(apiURL, &agdtest.ErrorCollector{OnCollect: func(_ context.Context, _ error) {}}, "verif", 2*time.Second)
	be := &c19Backend{}
	h.(*linkedIPProxy).httpProxy.Transport = be

	run := func(c c19Case) []vrt.Finding {
		fs, obs := c19Run(h, be, c)
		r.Trans(1)
		r.Class(strings.SplitN(obs, " ", 3)[0] + " " + c.Method)
		r.State(c.Method + "|" + obs)

		return fs
	}

	methods := []string{"GET", "POST", "HEAD", "PUT", "DELETE", "OPTIONS"}
	tokens := []string{"linkip", "ddns", "x", "status", "", ".", "..", "%2e%2e", "a%2Fb", "%252e%252e"}
	allForged := []string{
		"X-Connecting-IP: " + c19Forged,
		"X-Forwarded-For: " + c19Forged,
		"Forwarded: for=" + c19Forged,
		"X-Real-IP: " + c19Forged,
		"CF-Connecting-IP: " + c19Forged,
		"True-Client-IP: " + c19Forged,
		"X-Forwarded-Host: " + c19Forged,
	}
	maxSeg := vrt.Pick(r, 5, 7)
	r.Bound("max_path_segments", maxSeg)

	vrt.Part(r, "paths", func(emit func(c19Case)) {
		emit(c19Case{Method: "GET", Target: "/", Headers: allForged, Remote: "192.0.2.7:1234"})
		emit(c19Case{Method: "GET", Target: "/robots.txt", Headers: allForged, Remote: "192.0.2.7:1234"})
		vrt.Sequences(len(tokens), 1, maxSeg, func(seq []int) {
			segs := make([]string, len(seq))
			for i, s := range seq {
				segs[i] = tokens[s]
			}
			p := "/" + strings.Join(segs, "/")
			for _, suffix := range []string{"", "/", "?a=b", "/?a=/../x"} {
				for _, m := range methods {
					emit(c19Case{Method: m, Target: p + suffix, Headers: allForged, Remote: "192.0.2.7:1234"})
				}
			}
		})
	}, run)

	// All subsets of forged / hop-by-hop headers on representative requests.
	hdrs := append([]string{}, allForged...)
	hdrs = append(hdrs,
		"Connection: X-Connecting-IP",
		"Connection: close",
		"X-Connecting-IP: 7.7.7.7",
		"X-Forwarded-Proto: "+c19Forged,
	)
	reqs := [][2]string{
		{"GET", "/linkip/dev1/enc"}, {"GET", "/linkip/dev1/enc/status"}, {"POST", "/linkip/dev1/enc"},
		{"POST", "/ddns/dev1/enc/host.example"}, {"GET", "/ddns/dev1/enc/host.example"}, {"POST", "/x/dev1/enc"},
	}
	r.Bound("header_subsets", 1<<len(hdrs))
	vrt.Part(r, "headers", func(emit func(c19Case)) {
		for mask := 0; mask < 1<<len(hdrs); mask++ {
			var hs []string
			for i, hd := range hdrs {
				if mask&(1<<i) != 0 {
					hs = append(hs, hd)
				}
			}
			for _, rq := range reqs {
				for _, remote := range []string{"192.0.2.7:1234", "[2001:db8::7]:4321"} {
					emit(c19Case{Method: rq[0], Target: rq[1], Headers: hs, Remote: remote})
				}
				if mask < 1<<len(allForged) && mask&(mask-1) == 0 {
					// No or one forged header, from peers whose address does not parse.
					for _, remote := range []string{"2001:db8::1", "[2001:db8::1", "1.2.3.4:5:6"} {
						emit(c19Case{Method: rq[0], Target: rq[1], Headers: hs, Remote: remote})
					}
				}
			}
		}
	}, run)

	r.Finish()
	os.Exit(0)
}
