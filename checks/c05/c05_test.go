//go:build verif

package zzverifecs

import (
	"errors"
	"fmt"
	"net/netip"
	"os"
	"strings"
	"testing"

	"github.com/AdguardTeam/AdGuardDNS/internal/agdcache"
	"github.com/AdguardTeam/AdGuardDNS/internal/agdtest"
	"github.com/AdguardTeam/AdGuardDNS/internal/dnsserver/zzverif/vdns"
	"github.com/AdguardTeam/AdGuardDNS/internal/dnsserver/zzverif/vrt"
	"github.com/AdguardTeam/AdGuardDNS/internal/geoip"
	"github.com/AdguardTeam/golibs/netutil"
	"github.com/miekg/dns"
)

var (
	c05Clients = []string{"10.1.0.5", "10.2.0.5", "172.16.0.9", "2001:db8:1::5", "10.1.7.9"}
	c05Options = []string{"", "10.1.3.0/24", "0.0.0.0/0", "10.2.3.0/24", "10.1.3.7/24", "172.16.5.0/24", "badfamily", "badlen", "2001:db8:1:2::/64", "::/0", "dup:10.1.3.0/24+10.2.9.0/24", "twoopt:10.2.9.0/24"}
	c05Names   = []string{"dep.", "s0.", ecsFakeName, "odd.", "depfx."}
)

type c05Case struct {
	Events []ecsQuery `json:"events"`
	// Geo, when set, makes the GeoIP database fail: "all" for every address,
	// "ecs-addresses" for every address that is not a client's own,
	// "clients" for the clients' own addresses only.
	Geo string `json:"geoip_fails_for,omitempty"`
}

// c05Geo returns the table GeoIP database, failing as mode says.
func c05Geo(mode string) geoip.Interface {
	if mode == "" {
		return ecsGeoIP
	}
	clients := map[netip.Addr]bool{}
	for _, c := range c05Clients {
		clients[netip.MustParseAddr(c)] = true
	}

	return &agdtest.GeoIP{
		OnData: func(_ string, ip netip.Addr) (*geoip.Location, error) {
			if mode == "all" || (mode == "ecs-addresses") != clients[ip] {
				return nil, errors.New("geoip: scripted lookup failure")
			}

			return ecsLocate(ip), nil
		},
		OnSubnetByLocation: ecsGeoIP.OnSubnetByLocation,
	}
}

// c05Allowed returns the prefixes that may be forwarded upstream for q.
func c05Allowed(q ecsQuery) map[string]bool {
	out := map[string]bool{"0.0.0.0/0": true, "::/0": true}
	add := func(ip netip.Addr) {
		l := ecsLocate(ip)
		for _, fam := range []netutil.AddrFamily{netutil.AddrFamilyIPv4, netutil.AddrFamilyIPv6} {
			p := ecsGeoSubnet(l, fam)
			out[fmt.Sprintf("%s/%d", p.Addr(), p.Bits())] = true
		}
	}
	add(netip.MustParseAddr(q.Client))
	if p, present, valid := q.ecsPrefix(); present && valid {
		add(p.Addr())
	}

	return out
}

// c05Check checks one step.  generic, when not empty, is the canonical form of
// the answer upstream gave earlier in this history to a zero-prefix query for
// the same question: upstream declared it valid for every client (scope 0),
// so serving it instead of the regional answer is within the statement.
func c05Check(q ecsQuery, resp *dns.Msg, calls []ecsCall, err error, fresh *dns.Msg, ferr error, generic string) (fs []vrt.Finding) {
	pfx, present, valid := q.ecsPrefix()
	declined := present && valid && pfx.Bits() == 0
	allowed := c05Allowed(q)
	for _, c := range calls {
		switch {
		case c.subnet == "":
			fs = append(fs, vrt.F("ecs/upstream-query-without-ecs", "query %+v: upstream request carries no ECS option", q)...)
		case c.subnet == "multiple":
			fs = append(fs, vrt.F("ecs/upstream-query-multiple-ecs", "query %+v: upstream request carries several ECS options", q)...)
		case declined && !strings.HasSuffix(c.subnet, "/0"):
			fs = append(fs, vrt.F("ecs/declined-client-subnet-forwarded", "client %s opted out with %s but upstream got %s", q.Client, q.ECS, c.subnet)...)
		case !allowed[c.subnet]:
			key := "ecs/forwarded-subnet-not-geoip"
			if present && valid && c.subnet == fmt.Sprintf("%s/%d", pfx.Addr(), pfx.Bits()) {
				key = "ecs/client-supplied-subnet-forwarded"
			} else if strings.HasPrefix(c.subnet, q.Client+"/") {
				key = "ecs/client-address-forwarded"
			}
			fs = append(fs, vrt.F(key, "query %+v: upstream got ECS %s; allowed are only the GeoIP subnets of the client's / option's location or the zero prefix %v", q, c.subnet, allowed)...)
		}
	}
	if strings.HasPrefix(q.ECS, "twoopt:") {
		// How a query with two OPT records is answered is not specified by the
		// statement; only the forwarding rules above are checked.
		return fs
	}
	if present && !valid {
		if len(calls) > 0 {
			fs = append(fs, vrt.F("ecs/malformed-option-forwarded", "query %+v with a malformed ECS option reached upstream", q)...)
		}
		if resp == nil || resp.Rcode != dns.RcodeFormatError {
			fs = append(fs, vrt.F("ecs/malformed-option-not-formerr", "query %+v with a malformed ECS option answered with %s", q, vdns.Canon(resp, true))...)
		}

		return fs
	}
	if (err != nil) != (ferr != nil) {
		return append(fs, vrt.F("ecs/error-differs-from-fresh", "query %+v: warm err=%v fresh err=%v", q, err, ferr)...)
	}
	if resp == nil {
		return append(fs, vrt.F("ecs/no-response", "query %+v got no response (err=%v)", q, err)...)
	}
	got := ecsRespOpt(resp)
	if present && valid {
		want := fmt.Sprintf("%s/%d scope=%d fam=%d", pfx.Addr(), pfx.Bits(), pfx.Bits(), map[bool]int{true: 1, false: 2}[pfx.Addr().Is4()])
		if got != want {
			fs = append(fs, vrt.F("ecs/response-option-wrong", "query %+v: response ECS option %q, want %q (the client's own prefix, scope = source length)", q, got, want)...)
		}
	} else if got != "" {
		fs = append(fs, vrt.F("ecs/response-option-unsolicited", "query %+v carried no ECS option but the response has %q", q, got)...)
	}
	gs, ws := vdns.Canon(resp, false), vdns.Canon(fresh, false)
	if gs != ws && !(generic != "" && gs == generic && !declinedSubnetAnswer(declined, gs, generic)) {
		key := "ecs/cached-differs-from-fresh"
		if declined {
			key = "ecs/declined-client-served-subnet-answer"
		}
		fs = append(fs, vrt.F(key, "query %+v (upstream consulted: %v):\n   warm : %s\n   fresh: %s", q, len(calls) > 0, gs, ws)...)
	}

	return fs
}

func declinedSubnetAnswer(declined bool, gs, generic string) bool { return false }

// c05Key identifies the question of q as upstream sees it.
func c05Key(q ecsQuery) string {
	return fmt.Sprintf("%s|%d|%d|%v|%v", strings.ToLower(q.Name), q.QType, q.QClass, q.DO, c05IsV4(q))
}

// c05IsV4 reports the effective address family of q: the one of its valid
// ECS option, else the one of the client address.
func c05IsV4(q ecsQuery) bool {
	if p, present, valid := q.ecsPrefix(); present && valid {
		return p.Addr().Is4()
	}

	return netip.MustParseAddr(q.Client).Is4()
}

func TestVerifC05(t *testing.T) {
	r := vrt.Start("C05")
	ecsInit()
	var full, small []ecsQuery
	for _, n := range c05Names {
		for _, o := range c05Options {
			for _, c := range c05Clients {
				full = append(full, ecsQuery{Client: c, Name: n, QType: dns.TypeA, QClass: dns.ClassINET, ECS: o})
			}
		}
	}
	for _, n := range c05Names[:2] {
		for _, o := range []string{"", "10.1.3.0/24", "0.0.0.0/0", "10.2.3.0/24"} {
			for _, c := range append(append([]string{}, c05Clients[:4]...), "10.3.0.5") {
				small = append(small, ecsQuery{Client: c, Name: n, QType: dns.TypeA, QClass: dns.ClassINET, ECS: o})
			}
		}
	}
	depthFull := vrt.Pick(r, 2, 3)
	depthSmall := vrt.Pick(r, 3, 4)
	r.Bound("depth_full_alphabet", depthFull)
	r.Bound("events_full_alphabet", len(full))
	r.Bound("depth_reduced_alphabet", depthSmall)
	r.Bound("events_reduced_alphabet", len(small))

	run := func(c c05Case) (fs []vrt.Finding) {
		geo := c05Geo(c.Geo)
		ecsNewRig := func(kind string, override bool) *ecsRig {
			return ecsNewRigGeo(kind, override, geo, agdcache.EmptyManager{})
		}
		rig := ecsNewRig("ok", false)
		var obs []string
		zeroAsked := map[string]bool{}
		for i, q := range c.Events {
			resp, calls, err := rig.query(q, uint16(100+i))
			r.Trans(1)
			frig := ecsNewRig("ok", false)
			fresh, _, ferr := frig.query(q, uint16(100+i))
			generic := ""
			if zeroAsked[c05Key(q)] {
				gq := q
				gq.ECS = ""
				gq.Client = "172.16.0.9"
				if !c05IsV4(q) {
					gq.Client = "2001:db8:ffff::9"
				}
				gresp, _, _ := ecsNewRig("ok", false).query(gq, uint16(100+i))
				generic = vdns.Canon(gresp, false)
			}
			for _, cl := range calls {
				if strings.HasSuffix(cl.subnet, "/0") {
					zeroAsked[c05Key(q)] = true
				}
			}
			f := c05Check(q, resp, calls, err, fresh, ferr, generic)
			// A client that opted out must not be served an answer that
			// upstream scoped to a subnet (scope > 0), whatever subnet it was
			// asked for.
			if pfx, present, valid := q.ecsPrefix(); len(f) == 0 && present && valid && pfx.Bits() == 0 && len(calls) == 0 && resp != nil && !strings.EqualFold(q.Name, ecsFakeName) {
				for k := len(rig.up.calls) - 1; k >= 0; k-- {
					cl := rig.up.calls[k]
					cq := cl.req.Question[0]
					if !strings.EqualFold(cq.Name, q.Name) || cq.Qtype != q.QType ||
						fmt.Sprint(vdns.Section(cl.resp.Answer, false, false)) != fmt.Sprint(vdns.Section(resp.Answer, false, false)) {
						continue
					}
					if _, o := ecsForwarded(cl.resp); o != nil && o.SourceScope > 0 && (o.Family == 1) == c05IsV4(q) {
						f = vrt.F("ecs/declined-client-served-scoped-answer", "client %s opted out with %s and was answered from the cache with an answer upstream had scoped /%d (forwarded subnet %s)", q.Client, q.ECS, o.SourceScope, cl.subnet)
					}

					break
				}
			}
			var fw []string
			for _, cl := range calls {
				fw = append(fw, cl.subnet)
			}
			obs = append(obs, fmt.Sprintf("%s>%v>%s|%s", q.Client+q.ECS+q.Name, fw, vdns.Canon(resp, false), ecsRespOpt(resp)))
			if len(f) > 0 {
				f[0].Detail += fmt.Sprintf("\n   at step %d of history %+v", i, c.Events)

				return f[:1]
			}
			switch {
			case resp != nil && resp.Rcode == dns.RcodeFormatError:
				r.Class("formerr")
			case len(calls) == 0:
				r.Class("hit")
			default:
				r.Class("miss fwd=" + calls[0].subnet)
			}
		}
		r.State(strings.Join(obs, "\n"))

		return nil
	}
	gen := func(alpha []ecsQuery, minLen, maxLen int) func(emit func(c05Case)) {
		return func(emit func(c05Case)) {
			vrt.Sequences(len(alpha), minLen, maxLen, func(seq []int) {
				c := c05Case{}
				for _, i := range seq {
					c.Events = append(c.Events, alpha[i])
				}
				emit(c)
			})
		}
	}
	vrt.Part(r, "full", gen(full, 1, depthFull), run)
	vrt.Part(r, "reduced", gen(small, depthFull+1, depthSmall), run)
	// DNSSEC-OK queries: the hop-to-hop filtering of the upstream's OPT record
	// (and of its ECS option) must not depend on the DO bit, nor on whether
	// the query carried an OPT record at all.
	var dnssec []ecsQuery
	for _, n := range []string{"dep.", "s0.", "odd."} {
		for _, o := range []string{"", "10.1.3.0/24", "0.0.0.0/0", "2001:db8:1:2::/64"} {
			for _, c := range []string{c05Clients[0], c05Clients[1], c05Clients[3]} {
				for _, do := range []bool{true, false} {
					for _, edns := range []bool{true, false} {
						if do && !edns {
							continue
						}
						dnssec = append(dnssec, ecsQuery{Client: c, Name: n, QType: dns.TypeA, QClass: dns.ClassINET, ECS: o, DO: do, EDNS: edns})
					}
				}
			}
		}
	}
	r.Bound("depth_dnssec", 2)
	r.Bound("events_dnssec", len(dnssec))
	vrt.Part(r, "dnssec", gen(dnssec, 1, 2), run)
	// The GeoIP database fails (for every address, for the addresses of ECS
	// options only, for the clients' own addresses only): the lookups are
	// advisory, so the statement holds as it stands - an opt-out is still an
	// opt-out, a valid option is still echoed, nothing but GeoIP subnets or
	// the zero prefix goes upstream.
	var faulty []ecsQuery
	for _, n := range c05Names[:2] {
		for _, o := range []string{"", "10.1.3.0/24", "0.0.0.0/0", "10.2.3.0/24", "::/0", "2001:db8:1:2::/64", "badlen"} {
			for _, c := range []string{c05Clients[0], c05Clients[1], c05Clients[3]} {
				faulty = append(faulty, ecsQuery{Client: c, Name: n, QType: dns.TypeA, QClass: dns.ClassINET, ECS: o})
			}
		}
	}
	depthFault := vrt.Pick(r, 2, 3)
	r.Bound("depth_geoip_fault", depthFault)
	r.Bound("events_geoip_fault", len(faulty))
	vrt.Part(r, "geoip-fault", func(emit func(c05Case)) {
		for _, mode := range []string{"ecs-addresses", "all", "clients"} {
			vrt.Sequences(len(faulty), 1, depthFault, func(seq []int) {
				c := c05Case{Geo: mode}
				for _, i := range seq {
					c.Events = append(c.Events, faulty[i])
				}
				emit(c)
			})
		}
	}, run)
	r.Finish()
	os.Exit(0)
}
