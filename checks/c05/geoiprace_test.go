//go:build verif

package geoip

import (
	"context"
	"fmt"
	"net/netip"
	"os"
	"path/filepath"
	"testing"

	"github.com/AdguardTeam/AdGuardDNS/internal/agdcache"
	"github.com/AdguardTeam/AdGuardDNS/internal/dnsserver/zzverif/vrt"
	"github.com/AdguardTeam/AdGuardDNS/internal/dnsserver/zzverif/xsched"
	"github.com/AdguardTeam/golibs/container"
	"github.com/AdguardTeam/golibs/logutil/slogutil"
)

// C05, unit "geoip-race": lookups that are in flight while the GeoIP database
// is refreshed from changed files.  After the refresh has completed (and every
// lookup has returned), the location of an address - from which the subnet
// sent upstream is derived - must be the one the CURRENT files give; a result
// computed from the previous files must not survive in the cache.

// c05xAddrs are located differently by the two country databases of the
// repository's test data (the "Country" and the "City" one).
var c05xAddrs = []string{"111.235.160.1", "81.2.69.160", "2001:218::1", "216.160.83.56"}

func c05xCopy(dst, src string) {
	b, err := os.ReadFile(src)
	if err != nil {
		vrt.Fatalf("reading %s: %v", src, err)
	}
	tmp := dst + ".tmp"
	if err = os.WriteFile(tmp, b, 0o600); err != nil {
		vrt.Fatalf("writing %s: %v", tmp, err)
	}
	if err = os.Rename(tmp, dst); err != nil {
		vrt.Fatalf("renaming %s: %v", tmp, err)
	}
}

func c05xNew(dir, country string) *File {
	c05xCopy(filepath.Join(dir, "asn.mmdb"), "./testdata/GeoIP2-ISP-Test.mmdb")
	c05xCopy(filepath.Join(dir, "country.mmdb"), country)
	f := NewFile(&FileConfig{
		Logger:         slogutil.NewDiscardLogger(),
		CacheManager:   agdcache.EmptyManager{},
		ASNPath:        filepath.Join(dir, "asn.mmdb"),
		CountryPath:    filepath.Join(dir, "country.mmdb"),
		HostCacheCount: 0,
		IPCacheCount:   100,
		AllTopASNs:     container.NewMapSet[ASN](1221, 2516, 7922),
		CountryTopASNs: map[Country]ASN{CountryAU: 1221, CountryJP: 2516, CountryUS: 7922},
	})
	if err := f.Refresh(context.Background()); err != nil {
		vrt.Fatalf("geoip refresh: %v", err)
	}

	return f
}

func c05xLoc(f *File, a string) string {
	l, err := f.Data("", netip.MustParseAddr(a))
	if err != nil {
		return "error: " + err.Error()
	}
	if l == nil {
		return "no-location"
	}

	return fmt.Sprintf("%s/%s/%s/asn%d", l.Country, l.Continent, l.TopSubdivision, l.ASN)
}

type c05xScenario struct {
	// Addrs are the addresses looked up concurrently with the refresh, one
	// task each.
	Addrs []int `json:"addresses"`
	// Reverse refreshes from the City to the Country database.
	Reverse bool `json:"city_to_country"`
}

type c05xCase struct {
	Scenario c05xScenario `json:"scenario"`
	Choices  []int        `json:"choices"`
}

const (
	c05xOld   = "./testdata/GeoIP2-Country-Test.mmdb"
	c05xNewDB = "./testdata/GeoIP2-City-Test.mmdb"
)

type c05xEnv struct {
	f      *File
	during []string
	rerr   error
}

func c05xSetup(dir string, sc c05xScenario, s *xsched.Sched) *c05xEnv {
	from, to := c05xOld, c05xNewDB
	if sc.Reverse {
		from, to = to, from
	}
	env := &c05xEnv{f: c05xNew(dir, from), during: make([]string, len(sc.Addrs))}
	for i, ai := range sc.Addrs {
		s.Go(fmt.Sprintf("lookup:%s", c05xAddrs[ai]), func() { env.during[i] = c05xLoc(env.f, c05xAddrs[ai]) })
	}
	s.Go("refresh", func() {
		c05xCopy(filepath.Join(dir, "country.mmdb"), to)
		env.rerr = env.f.Refresh(context.Background())
	})

	return env
}

func c05xCheck(sc c05xScenario, want map[bool]map[string]string, env *c05xEnv, x *xsched.Exec) []vrt.Finding {
	if x.Sched.Panicked != "" {
		return vrt.F("geoip-race/panic", "%s", x.Sched.Panicked)
	}
	if x.Sched.Deadlock || x.Sched.LimitHit {
		return vrt.F("geoip-race/deadlock", "blocked %v", x.Sched.Blocked)
	}
	if env.rerr != nil {
		return vrt.F("geoip-race/refresh-failed", "%v", env.rerr)
	}
	for i, ai := range sc.Addrs {
		a := c05xAddrs[ai]
		// A lookup that overlaps the refresh may answer by either database.
		if d := env.during[i]; d != want[sc.Reverse][a] && d != want[!sc.Reverse][a] {
			return vrt.F("geoip-race/lookup-answer-of-neither-database", "lookup of %s during the refresh returned %q; the previous files say %q, the new ones %q\nschedule:\n%s", a, d, want[!sc.Reverse][a], want[sc.Reverse][a], x.Sched.Describe())
		}
		if got := c05xLoc(env.f, a); got != want[sc.Reverse][a] {
			return vrt.F("geoip-race/stale-location-after-refresh", "after the refresh has completed %s is located as %q, but the current files say %q (the previous ones: %q): a result computed from the previous database survived the refresh\nschedule:\n%s", a, got, want[sc.Reverse][a], want[!sc.Reverse][a], x.Sched.Describe())
		}
	}

	return nil
}

func TestVerifC05GeoIPRace(t *testing.T) {
	r := vrt.Start("C05")
	dir := t.TempDir()
	cleanup := func() {}
	if d, err := os.MkdirTemp("/dev/shm", "verif-c05x-"); err == nil {
		dir = d
		// The process leaves through os.Exit: no defers.
		cleanup = func() { _ = os.RemoveAll(d) }
	}
	// What each database says, on databases that have only ever seen it.
	// want[reverse] is the answer AFTER a refresh in that direction.
	want := map[bool]map[string]string{false: {}, true: {}}
	differ := 0
	for _, a := range c05xAddrs {
		want[false][a] = c05xLoc(c05xNew(dir, c05xNewDB), a)
		want[true][a] = c05xLoc(c05xNew(dir, c05xOld), a)
		if want[false][a] != want[true][a] {
			differ++
		}
		r.Note("%s: country db %q, city db %q", a, want[true][a], want[false][a])
	}
	if differ == 0 {
		vrt.Fatalf("geoip-race: the two test databases locate every address alike")
	}
	var rc c05xCase
	if r.ReplayCase("geoip-race", &rc) {
		var env *c05xEnv
		x := xsched.Replay(rc.Choices, func(s *xsched.Sched) { env = c05xSetup(dir, rc.Scenario, s) })
		r.Eval()
		r.Report("geoip-race", rc, c05xCheck(rc.Scenario, want, env, x))
	}
	if r.ShouldRun() {
		shard, nshards := r.NShards()
		var scenarios []c05xScenario
		for _, rev := range []bool{false, true} {
			for a := range c05xAddrs {
				scenarios = append(scenarios, c05xScenario{Addrs: []int{a}, Reverse: rev})
			}
			scenarios = append(scenarios, c05xScenario{Addrs: []int{0, 1}, Reverse: rev})
		}
		r.Bound("geoip_race_scenarios", len(scenarios))
		r.Bound("geoip_race_preemptions", vrt.Pick(r, "1", "2"))
		for si, sc := range scenarios {
			if si%nshards != shard {
				continue
			}
			var env *c05xEnv
			found := 0
			st := xsched.Explore(xsched.Config{MaxPreemptions: vrt.Pick(r, 1, 2), MaxDeviations: 0, Stop: r.Expired},
				func(s *xsched.Sched) { env = c05xSetup(dir, sc, s) },
				func(x *xsched.Exec) bool {
					r.Eval()
					r.Trans(len(x.Sched.Trace))
					fs := c05xCheck(sc, want, env, x)
					r.Class(fmt.Sprintf("geoip-race %d lookups", len(sc.Addrs)))
					r.State(fmt.Sprint("geoip-race", sc, env.during))
					if len(fs) > 0 {
						r.Report("geoip-race", c05xCase{Scenario: sc, Choices: x.Choices}, fs)
						found++
					}

					return found < 1
				})
			if st.Stopped {
				r.Note("geoip race %+v stopped by deadline after %d executions", sc, st.Executions)
			}
		}
	}
	r.Finish()
	cleanup()
	os.Exit(0)
}
