//go:build verif

package zzverifecs

import (
	"context"
	"fmt"
	"os"
	"path/filepath"
	"testing"

	"github.com/AdguardTeam/AdGuardDNS/internal/agdcache"
	"github.com/AdguardTeam/AdGuardDNS/internal/dnsserver/zzverif/vrt"
	"github.com/AdguardTeam/AdGuardDNS/internal/geoip"
	"github.com/AdguardTeam/golibs/container"
	"github.com/AdguardTeam/golibs/logutil/slogutil"
	"github.com/miekg/dns"
)

// C05, unit "realgeo": the real ratelimitmw -> ecscache chain over the REAL
// file-based GeoIP database (the repository's test databases), whose Data
// returns pointers into a long-lived cache and whose SubnetByLocation fills
// in fields of its argument.  Sequences of requests on one stack, the DNS
// caches cleared between the steps, so that every step is forwarded and the
// only state that survives is the GeoIP database's: the subnet sent upstream
// for a client, and the ECS option it gets back, must be those the same
// request produces alone on a fresh stack.

type c05rMgr struct{ caches []agdcache.Clearer }

func (m *c05rMgr) Add(_ string, c agdcache.Clearer) { m.caches = append(m.caches, c) }
func (m *c05rMgr) ClearByID(_ string)               {}
func (m *c05rMgr) clearAll() {
	for _, c := range m.caches {
		c.Clear()
	}
}

// c05rData finds the GeoIP test databases of the repository.
func c05rData() (asn, country string) {
	dir, err := os.Getwd()
	if err != nil {
		vrt.Fatalf("getwd: %v", err)
	}
	for d := dir; ; d = filepath.Dir(d) {
		p := filepath.Join(d, "internal", "geoip", "testdata")
		if _, err = os.Stat(filepath.Join(p, "GeoIP2-ISP-Test.mmdb")); err == nil {
			return filepath.Join(p, "GeoIP2-ISP-Test.mmdb"), filepath.Join(p, "GeoIP2-City-Test.mmdb")
		}
		if d == filepath.Dir(d) {
			vrt.Fatalf("GeoIP test databases not found above %s", dir)
		}
	}
}

func c05rNewGeo() *geoip.File {
	asnPath, ctryPath := c05rData()
	f := geoip.NewFile(&geoip.FileConfig{
		Logger:       slogutil.NewDiscardLogger(),
		CacheManager: agdcache.EmptyManager{},
		// AS29518 (SE, IPv4 networks only) and AS1221 (AU) are top ASNs; the top
		// ASN of SE is the other one, that of US is AS7922.
		AllTopASNs:     container.NewMapSet[geoip.ASN](29518, 1221, 7922, 2516),
		CountryTopASNs: map[geoip.Country]geoip.ASN{geoip.CountrySE: 1221, geoip.CountryUS: 7922, geoip.CountryJP: 2516},
		ASNPath:        asnPath,
		CountryPath:    ctryPath,
		HostCacheCount: 0,
		IPCacheCount:   100,
	})
	if err := f.Refresh(context.Background()); err != nil {
		vrt.Fatalf("geoip refresh: %v", err)
	}

	return f
}

var (
	c05rClients = []string{
		"89.160.20.130", // SE, AS29518
		"89.160.20.131", // same network
		"81.2.69.160",   // GB
		"216.160.83.56", // US
		"1.128.0.5",     // AS1221
		"2001:218::1",   // JP, IPv6
		"10.9.8.7",      // unknown
	}
	// ECS options: "" none; IPv4-family and IPv6-family prefixes, among them
	// IPv6-family prefixes of IPv4-mapped addresses.  The database caches its
	// answers per /24 (IPv4) and /56 (IPv6) by design (ipToCacheKey, RFC 6177),
	// and the test databases have networks smaller than that: every prefix
	// here starts at an address for which the database says the same as for
	// the clients of that /24, so that the documented granularity of the cache
	// cannot show as a difference.
	c05rECS = []string{"", "89.160.20.128/25", "::ffff:89.160.20.128/121", "81.2.69.160/28", "::ffff:81.2.69.160/124", "2001:218::/32", "216.160.83.56/29", "0.0.0.0/0"}
)

type c05rStep struct {
	Client int `json:"client"`
	ECS    int `json:"ecs"`
}

func (s c05rStep) query() ecsQuery {
	return ecsQuery{Client: c05rClients[s.Client], Name: "dep.", QType: dns.TypeA, QClass: dns.ClassINET, ECS: c05rECS[s.ECS]}
}

type c05rCase struct {
	Steps []c05rStep `json:"steps"`
}

// c05rObserve runs one step and returns what was forwarded and what the
// client received.
func c05rObserve(rig *ecsRig, st c05rStep, id uint16) string {
	resp, calls, err := rig.query(st.query(), id)
	fwd := "<not forwarded>"
	if len(calls) == 1 {
		fwd = calls[0].subnet
	} else if len(calls) > 1 {
		fwd = fmt.Sprintf("<%d upstream calls>", len(calls))
	}
	if err != nil {
		return fmt.Sprintf("forwarded=%s err=%v", fwd, err)
	}

	return fmt.Sprintf("forwarded=%s resp-ecs={%s} rcode=%d", fwd, ecsRespOpt(resp), resp.Rcode)
}

func TestVerifC05RealGeo(t *testing.T) {
	r := vrt.Start("C05")
	ecsInit()
	maxLen := vrt.Pick(r, 2, 3)
	r.Bound("realgeo_sequence_length", maxLen)
	r.Bound("realgeo_events", len(c05rClients)*len(c05rECS))
	var events []c05rStep
	for c := range c05rClients {
		for e := range c05rECS {
			events = append(events, c05rStep{Client: c, ECS: e})
		}
	}
	// Golden observations: every event alone on a fresh stack.
	golden := map[c05rStep]string{}
	for _, ev := range events {
		rig := ecsNewRigGeo("ok", false, c05rNewGeo(), &c05rMgr{})
		golden[ev] = c05rObserve(rig, ev, 0x100)
		r.Note("golden %s ecs=%q: %s", c05rClients[ev.Client], c05rECS[ev.ECS], golden[ev])
	}
	vrt.Part(r, "realgeo", func(emit func(c05rCase)) {
		vrt.Sequences(len(events), 2, maxLen, func(seq []int) {
			c := c05rCase{}
			for _, i := range seq {
				c.Steps = append(c.Steps, events[i])
			}
			emit(c)
		})
	}, func(c c05rCase) []vrt.Finding {
		mgr := &c05rMgr{}
		geo := c05rNewGeo()
		rig := ecsNewRigGeo("ok", false, geo, mgr)
		var obs []string
		for i, st := range c.Steps {
			mgr.clearAll()
			got := c05rObserve(rig, st, 0x100)
			r.Trans(1)
			obs = append(obs, got)
			if want := golden[st]; got != want {
				return vrt.F("realgeo/forwarded-subnet-depends-on-earlier-requests", "step %d of %d: client %s with ECS %q\n   after the earlier steps: %s\n   alone on a fresh stack : %s\nearlier steps: %+v", i+1, len(c.Steps), c05rClients[st.Client], c05rECS[st.ECS], got, want, c.Steps[:i])
			}
		}
		r.Class(fmt.Sprintf("realgeo %d steps", len(c.Steps)))
		r.State(fmt.Sprint(obs))

		return nil
	})
	r.Finish()
	os.Exit(0)
}
