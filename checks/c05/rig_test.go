//go:build verif

package zzverifecs

import (
	"context"
	"fmt"
	"net"
	"net/netip"
	"strings"
	"time"

	"github.com/AdguardTeam/AdGuardDNS/internal/agd"
	"github.com/AdguardTeam/AdGuardDNS/internal/agdcache"
	"github.com/AdguardTeam/AdGuardDNS/internal/agdtest"
	"github.com/AdguardTeam/AdGuardDNS/internal/dnsmsg"
	"github.com/AdguardTeam/AdGuardDNS/internal/dnsserver"
	"github.com/AdguardTeam/AdGuardDNS/internal/dnsserver/zzverif/vdns"
	"github.com/AdguardTeam/AdGuardDNS/internal/dnsserver/zzverif/vrt"
	"github.com/AdguardTeam/AdGuardDNS/internal/dnsserver/zzverif/xsched"
	"github.com/AdguardTeam/AdGuardDNS/internal/dnssvc/internal/ratelimitmw"
	"github.com/AdguardTeam/AdGuardDNS/internal/ecscache"
	"github.com/AdguardTeam/AdGuardDNS/internal/geoip"
	"github.com/AdguardTeam/golibs/logutil/slogutil"
	"github.com/AdguardTeam/golibs/netutil"
	"github.com/miekg/dns"
)

// ---- GeoIP table -----------------------------------------------------------

var (
	// Client networks.
	ecsNetX4 = netip.MustParsePrefix("10.1.0.0/16")
	ecsNetY4 = netip.MustParsePrefix("10.2.0.0/16")
	ecsNetX6 = netip.MustParsePrefix("2001:db8:1::/48")
	ecsNetZ4 = netip.MustParsePrefix("10.3.0.0/16")

	// Coarse subnets the GeoIP database assigns to the countries.
	ecsGeoX4 = netip.MustParsePrefix("203.0.113.0/24")
	ecsGeoY4 = netip.MustParsePrefix("198.51.100.0/24")
	ecsGeoX6 = netip.MustParsePrefix("2001:db8:aaaa::/48")
	// Region Z's subnet has the network address of region X's and another
	// prefix length (as a country's subnet and the subnet of its top ASN can).
	ecsGeoZ4 = netip.MustParsePrefix("203.0.113.0/25")
)

func ecsLocate(ip netip.Addr) *geoip.Location {
	switch {
	case ecsNetX4.Contains(ip), ecsNetX6.Contains(ip):
		return &geoip.Location{Country: geoip.Country("XA"), ASN: 1}
	case ecsNetY4.Contains(ip):
		return &geoip.Location{Country: geoip.Country("YB"), ASN: 2}
	case ecsNetZ4.Contains(ip):
		return &geoip.Location{Country: geoip.Country("ZC"), ASN: 3}
	default:
		return nil
	}
}

func ecsGeoSubnet(l *geoip.Location, fam netutil.AddrFamily) netip.Prefix {
	if l != nil {
		switch {
		case l.Country == "XA" && fam == netutil.AddrFamilyIPv4:
			return ecsGeoX4
		case l.Country == "YB" && fam == netutil.AddrFamilyIPv4:
			return ecsGeoY4
		case l.Country == "XA" && fam == netutil.AddrFamilyIPv6:
			return ecsGeoX6
		case l.Country == "ZC" && fam == netutil.AddrFamilyIPv4:
			return ecsGeoZ4
		}
	}

	return netutil.ZeroPrefix(fam)
}

var ecsGeoIP = &agdtest.GeoIP{
	OnData: func(_ string, ip netip.Addr) (*geoip.Location, error) { return ecsLocate(ip), nil },
	OnSubnetByLocation: func(l *geoip.Location, fam netutil.AddrFamily) (netip.Prefix, error) {
		return ecsGeoSubnet(l, fam), nil
	},
}

// ---- Scripted upstream -----------------------------------------------------

// ecsFakeName is in ecscache.FakeECSFQDNs: scope is echoed but must be
// ignored.
const ecsFakeName = "126.com."

// ecsCall is one recorded upstream call.
type ecsCall struct {
	at     time.Time
	req    *dns.Msg
	resp   *dns.Msg
	subnet string // forwarded ECS prefix, "" = none, "multiple" = more than one option
}

type ecsUpstream struct {
	kind  string // answer kind of "p."
	calls []ecsCall
}

// ecsForwarded returns the ECS prefix of an upstream request.
func ecsForwarded(req *dns.Msg) (s string, o *dns.EDNS0_SUBNET) {
	if req.IsEdns0() == nil {
		return "", nil
	}
	// Every OPT record of the request counts: an upstream sees all of them.
	n := 0
	for _, rr := range req.Extra {
		opt, ok := rr.(*dns.OPT)
		if !ok {
			continue
		}
		for _, x := range opt.Option {
			if sn, ok := x.(*dns.EDNS0_SUBNET); ok {
				o = sn
				n++
			}
		}
	}
	switch n {
	case 0:
		return "", nil
	case 1:
		return fmt.Sprintf("%s/%d", o.Address, o.SourceNetmask), o
	default:
		return "multiple", o
	}
}

// ecsAnswer is the upstream: a pure function of (lower-cased name, qtype,
// qclass, forwarded subnet); the DO bit of the upstream request only adds
// DNSSEC records (the cache asks upstream with its own DO setting).  Names: "dep." and "dep2." are ECS dependent
// (scope = 24/48 when a non-zero source is given) and their records encode
// the forwarded subnet; ecsFakeName echoes a scope but is on the fake-ECS
// list; "p." answers with the configured kind and scope 0; all others are
// plain answers with scope 0.
func ecsAnswer(kind string, req *dns.Msg) (resp *dns.Msg) {
	q := req.Question[0]
	name := strings.ToLower(q.Name)
	do := 0
	ropt := req.IsEdns0()
	if ropt != nil && ropt.Do() {
		do = 1
	}
	if name != "p." {
		kind = "ok"
	}
	_, sn := ecsForwarded(req)
	// "depfx." is ECS dependent like "dep.", and the upstream fails (SERVFAIL,
	// scoped to the subnet it was asked for) for region X only.
	if name == "depfx." && sn != nil && sn.SourceNetmask > 0 {
		if a, ok := netip.AddrFromSlice(sn.Address); ok && (ecsGeoX4.Contains(a.Unmap()) || ecsGeoX6.Contains(a)) {
			kind = "servfail"
		}
	}
	resp = &dns.Msg{}
	resp.SetReply(req)
	resp.RecursionAvailable = true
	resp.AuthenticatedData = true
	// "odd." echoes a non-zero scope even for a zero-prefix query.
	odd := name == "odd."
	dep := name == "dep." || name == "dep2." || name == "depfx." || name == "depbad." || name == ecsFakeName || odd
	cl := dns.Class(q.Qclass).String()
	sub := 0
	if dep && name != ecsFakeName && sn != nil && sn.SourceNetmask > 0 {
		// Encode the forwarded subnet into the record data.
		for _, b := range sn.Address {
			sub = (sub*31 + int(b)) % 200
		}
		// ... and its length.
		sub = (sub*31+int(sn.SourceNetmask))%200 + 1
	}
	rec := func(ttl int, last int) dns.RR {
		if q.Qtype == dns.TypeAAAA {
			return vdns.MustRR(fmt.Sprintf("%s %d %s AAAA 2001:db8::%d:%d:%d:%d", name, ttl, cl, q.Qtype, q.Qclass, sub, last))
		}

		return vdns.MustRR(fmt.Sprintf("%s %d %s A 10.%d.%d.%d", name, ttl, cl, (int(q.Qtype)*7+int(q.Qclass)*3)%250, sub, last))
	}
	soa := func(ttl, minttl int) dns.RR {
		return vdns.MustRR(fmt.Sprintf("%s %d %s SOA ns.%s hm.%s %d%d 3600 600 86400 %d", name, ttl, cl, name, name, q.Qtype, q.Qclass%250, minttl))
	}
	switch kind {
	case "ok":
		resp.Answer = []dns.RR{rec(10, 1), rec(30, 2)}
		if do == 1 {
			resp.Answer = append(resp.Answer, vdns.MustRR(fmt.Sprintf("%s 10 %s RRSIG A 8 1 10 20300101000000 20200101000000 1 %s c2ln", name, cl, name)))
		}
	case "nodatasoa":
		resp.Ns = []dns.RR{soa(20, 5)}
	case "nodatanosoa":
		resp.Ns = []dns.RR{vdns.MustRR(fmt.Sprintf("%s 20 %s NS ns.%s", name, cl, name))}
	case "nx":
		resp.Rcode = dns.RcodeNameError
		resp.Ns = []dns.RR{soa(20, 20)}
	case "nxsoahi":
		// SOA whose own TTL is below its MINIMUM field.
		resp.Rcode = dns.RcodeNameError
		resp.Ns = []dns.RR{soa(10, 3600)}
	case "servfail":
		resp.Rcode = dns.RcodeServerFailure
	case "refused":
		resp.Rcode = dns.RcodeRefused
		resp.Ns = []dns.RR{soa(20, 20)}
	case "tc":
		resp.Truncated = true
		resp.Answer = []dns.RR{rec(10, 1)}
	case "ttl0":
		resp.Answer = []dns.RR{rec(0, 1)}
	case "cname":
		resp.Answer = []dns.RR{vdns.MustRR(fmt.Sprintf("%s 7 %s CNAME t%d-%d.%s", name, cl, q.Qtype, q.Qclass%250, name))}
		t := rec(12, 1)
		t.Header().Name = fmt.Sprintf("t%d-%d.%s", q.Qtype, q.Qclass%250, name)
		resp.Answer = append(resp.Answer, t)
	}
	if ropt != nil {
		resp.SetEdns0(1232, ropt.Do())
		if sn != nil {
			scope := uint8(0)
			if dep && sn.SourceNetmask > 0 {
				scope = sn.SourceNetmask
			} else if odd {
				scope = 24
			}
			ropt := resp.IsEdns0()
			ropt.Option = append(ropt.Option, &dns.EDNS0_SUBNET{
				Code: dns.EDNS0SUBNET, Family: sn.Family, SourceNetmask: sn.SourceNetmask, SourceScope: scope,
				Address: append(net.IP{}, sn.Address...),
			})
			if name == "depbad." && scope > 0 {
				// A sloppy upstream: the echoed address has bits set beyond the
				// prefix, which makes the option malformed.
				o := ropt.Option[len(ropt.Option)-1].(*dns.EDNS0_SUBNET)
				o.Address[len(o.Address)-1] |= 1
			}
		}
	}

	return resp
}

func (u *ecsUpstream) ServeDNS(ctx context.Context, rw dnsserver.ResponseWriter, req *dns.Msg) (err error) {
	// The exchange with the upstream takes time: other requests may run
	// meanwhile (scheduling points under the schedule explorer, no-ops else).
	xsched.Yield("upstream: request sent")
	defer xsched.Yield("upstream: answer received")
	resp := ecsAnswer(u.kind, req)
	fwd, _ := ecsForwarded(req)
	u.calls = append(u.calls, ecsCall{at: time.Now(), req: req.Copy(), resp: resp.Copy(), subnet: fwd})

	return rw.WriteMsg(ctx, req, resp)
}

// ---- The rig: real ratelimitmw -> real ecscache -> scripted upstream -------

type ecsRig struct {
	h  dnsserver.Handler
	up *ecsUpstream
}

var (
	ecsErrColl = &agdtest.ErrorCollector{OnCollect: func(_ context.Context, err error) {
		// A malformed ECS option is reported through the collector; anything
		// else is unexpected but not a harness failure.
	}}
	ecsAccess = &agdtest.AccessManager{
		OnIsBlockedHost: func(_ string, _ uint16) bool { return false },
		OnIsBlockedIP:   func(_ netip.Addr) bool { return false },
	}
	ecsLimiter = &agdtest.RateLimit{
		OnIsRateLimited:  func(_ context.Context, _ *dns.Msg, _ netip.Addr) (bool, bool, error) { return false, false, nil },
		OnCountResponses: func(_ context.Context, _ *dns.Msg, _ netip.Addr) {},
	}
	ecsFinder = &agdtest.DeviceFinder{
		OnFind: func(_ context.Context, _ *dns.Msg, _, _ netip.AddrPort) agd.DeviceResult { return nil },
	}
	ecsCloner   = dnsmsg.NewCloner(dnsmsg.EmptyClonerStat{})
	ecsMessages *dnsmsg.Constructor
)

// ecsMinTTL is the minimum TTL of the ECS cache of the rigs built next; a
// variable, so that a case can ask for another one.
var ecsMinTTL = 20 * time.Second

func ecsInit() {
	var err error
	ecsMessages, err = dnsmsg.NewConstructor(&dnsmsg.ConstructorConfig{
		Cloner:              ecsCloner,
		BlockingMode:        &dnsmsg.BlockingModeNullIP{},
		StructuredErrors:    agdtest.NewSDEConfig(true),
		FilteredResponseTTL: 10 * time.Second,
		EDEEnabled:          true,
	})
	if err != nil {
		vrt.Fatalf("constructor: %v", err)
	}
}

func ecsNewRig(kind string, override bool) *ecsRig {
	return ecsNewRigGeo(kind, override, ecsGeoIP, agdcache.EmptyManager{})
}

// ecsNewRigGeo is ecsNewRig with the given GeoIP database and cache manager.
func ecsNewRigGeo(kind string, override bool, geo geoip.Interface, mgr agdcache.Manager) *ecsRig {
	up := &ecsUpstream{kind: kind}
	cache := ecscache.NewMiddleware(&ecscache.MiddlewareConfig{
		Cloner:       ecsCloner,
		Logger:       slogutil.NewDiscardLogger(),
		CacheManager: mgr,
		GeoIP:        geo,
		MinTTL:       ecsMinTTL,
		NoECSCount:   200,
		ECSCount:     200,
		OverrideTTL:  override,
	})
	rl := ratelimitmw.New(&ratelimitmw.Config{
		Logger:           slogutil.NewDiscardLogger(),
		Messages:         ecsMessages,
		FilteringGroup:   &agd.FilteringGroup{},
		ServerGroup:      &agd.ServerGroup{},
		Server:           &agd.Server{Name: "srv", Protocol: agd.ProtoDNS},
		StructuredErrors: agdtest.NewSDEConfig(true),
		AccessManager:    ecsAccess,
		DeviceFinder:     ecsFinder,
		ErrColl:          ecsErrColl,
		GeoIP:            geo,
		Metrics:          ratelimitmw.EmptyMetrics{},
		Limiter:          ecsLimiter,
		Protocols:        []agd.Protocol{agd.ProtoDNS},
		EDEEnabled:       true,
	})

	return &ecsRig{h: rl.Wrap(cache.Wrap(up)), up: up}
}

// ecsQuery describes one client query.
type ecsQuery struct {
	Client string `json:"client"`
	Name   string `json:"name"`
	QType  uint16 `json:"qtype"`
	QClass uint16 `json:"qclass"`
	DO     bool   `json:"do,omitempty"`
	AD     bool   `json:"ad,omitempty"`
	CD     bool   `json:"cd,omitempty"`
	// ECS: "" none; "a.b.c.d/n" valid or malformed prefix text; special
	// values "badfamily", "badlen".
	ECS string `json:"ecs,omitempty"`
	// EDNS forces an OPT record even without DO/ECS.
	EDNS bool `json:"edns,omitempty"`
}

func (q ecsQuery) msg(id uint16) *dns.Msg {
	m := vdns.NewReq(id, q.Name, q.QType, q.QClass)
	m.AuthenticatedData = q.AD
	m.CheckingDisabled = q.CD
	if q.DO || q.ECS != "" || q.EDNS {
		m.SetEdns0(1232, q.DO)
	}
	if strings.HasPrefix(q.ECS, "twoopt:") {
		// Two OPT records in one query (malformed per RFC 6891): the first one
		// carries the client's ECS option, the second one is plain.
		pfx := netip.MustParsePrefix(strings.TrimPrefix(q.ECS, "twoopt:"))
		a := pfx.Addr().As4()
		first := &dns.OPT{Hdr: dns.RR_Header{Name: ".", Rrtype: dns.TypeOPT}}
		first.SetUDPSize(1232)
		first.Option = append(first.Option, &dns.EDNS0_SUBNET{Code: dns.EDNS0SUBNET, Family: 1, SourceNetmask: uint8(pfx.Bits()), Address: net.IP(a[:])})
		m.Extra = append([]dns.RR{first}, m.Extra...)

		return m
	}
	if strings.HasPrefix(q.ECS, "dup:") {
		// Two ECS options in one query.
		opt := m.IsEdns0()
		for _, p := range strings.Split(strings.TrimPrefix(q.ECS, "dup:"), "+") {
			pfx := netip.MustParsePrefix(p)
			a := pfx.Addr().As4()
			opt.Option = append(opt.Option, &dns.EDNS0_SUBNET{Code: dns.EDNS0SUBNET, Family: 1, SourceNetmask: uint8(pfx.Bits()), Address: net.IP(a[:])})
		}

		return m
	}
	if q.ECS != "" {
		opt := m.IsEdns0()
		o := &dns.EDNS0_SUBNET{Code: dns.EDNS0SUBNET}
		switch q.ECS {
		case "badfamily":
			o.Family, o.SourceNetmask, o.Address = 3, 24, net.IP{1, 2, 3, 0}
		case "badlen":
			o.Family, o.SourceNetmask, o.Address = 1, 33, net.IP{1, 2, 3, 0}
		default:
			ipStr, bitsStr, _ := strings.Cut(q.ECS, "/")
			ip := netip.MustParseAddr(ipStr)
			var bits int
			fmt.Sscan(bitsStr, &bits)
			o.SourceNetmask = uint8(bits)
			if ip.Is4() {
				o.Family = 1
				a := ip.As4()
				o.Address = net.IP(a[:])
			} else {
				o.Family = 2
				o.Address = net.IP(ip.AsSlice())
			}
		}
		opt.Option = append(opt.Option, o)
	}

	return m
}

// valid reports whether the ECS option of q is well-formed, and its prefix.
func (q ecsQuery) ecsPrefix() (p netip.Prefix, present, valid bool) {
	switch q.ECS {
	case "":
		return netip.Prefix{}, false, false
	case "badfamily", "badlen":
		return netip.Prefix{}, true, false
	}
	if strings.HasPrefix(q.ECS, "twoopt:") {
		p, err := netip.ParsePrefix(strings.TrimPrefix(q.ECS, "twoopt:"))

		return p, true, err == nil
	}
	if strings.HasPrefix(q.ECS, "dup:") {
		// The first option is the one a server answers to.
		first, _, _ := strings.Cut(strings.TrimPrefix(q.ECS, "dup:"), "+")
		p, err := netip.ParsePrefix(first)

		return p, true, err == nil && p.Masked() == p
	}
	p, err := netip.ParsePrefix(q.ECS)
	if err != nil {
		return netip.Prefix{}, true, false
	}

	return p, true, p.Masked() == p
}

func (r *ecsRig) query(q ecsQuery, id uint16) (resp *dns.Msg, consulted []ecsCall, err error) {
	before := len(r.up.calls)
	raddr := net.UDPAddrFromAddrPort(netip.AddrPortFrom(netip.MustParseAddr(q.Client), 5353))
	rw := dnsserver.NewNonWriterResponseWriter(&net.UDPAddr{IP: net.IP{127, 0, 0, 1}, Port: 53}, raddr)
	ctx := dnsserver.ContextWithRequestInfo(context.Background(), &dnsserver.RequestInfo{StartTime: time.Now()})
	ctx = dnsserver.ContextWithServerInfo(ctx, &dnsserver.ServerInfo{Name: "srv", Addr: "127.0.0.1:53", Proto: dnsserver.ProtoDNS})
	err = r.h.ServeDNS(ctx, rw, q.msg(id))

	return rw.Msg(), r.up.calls[before:], err
}

// ecsRespOpt returns a canonical string of the ECS option of a response.
func ecsRespOpt(m *dns.Msg) string {
	if m == nil {
		return ""
	}
	s, o := ecsForwarded(m)
	if o == nil {
		return s
	}

	return fmt.Sprintf("%s scope=%d fam=%d", s, o.SourceScope, o.Family)
}
