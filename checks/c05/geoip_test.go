//go:build verif

package geoip

import (
	"context"
	"fmt"
	"net/netip"
	"os"
	"strings"
	"testing"

	"github.com/AdguardTeam/AdGuardDNS/internal/agdcache"
	"github.com/AdguardTeam/AdGuardDNS/internal/dnsserver/zzverif/vrt"
	"github.com/AdguardTeam/golibs/container"
	"github.com/AdguardTeam/golibs/logutil/slogutil"
	"github.com/AdguardTeam/golibs/netutil"
)

// The location GeoIP reports for an address (and the subnet derived from it)
// must depend on that address only, not on which addresses were looked up
// before; an IPv4-mapped IPv6 address is the IPv4 address.

var c05gAddrs = []string{
	"81.2.69.160",        // GB in the MaxMind test databases
	"89.160.20.128",      // SE
	"216.160.83.56",      // US, with subdivision
	"1.128.0.0",          // ASN only
	"2001:218::1",        // JP, IPv6
	"2a02:d300::1",       // another IPv6 network
	"10.9.8.7",           // not in the databases
	"::ffff:81.2.69.160", // IPv4-mapped forms
	"::ffff:89.160.20.128",
	"::ffff:216.160.83.56",
	"::ffff:10.9.8.7",
}

func c05gNew() *File {
	top := map[Country]ASN{CountryAU: 1221, CountryJP: 2516, CountryUS: 7922}
	f := NewFile(&FileConfig{
		Logger:         slogutil.NewDiscardLogger(),
		CacheManager:   agdcache.EmptyManager{},
		ASNPath:        "./testdata/GeoIP2-ISP-Test.mmdb",
		CountryPath:    "./testdata/GeoIP2-City-Test.mmdb",
		HostCacheCount: 0,
		IPCacheCount:   100,
		AllTopASNs:     container.NewMapSet(top[CountryAU], top[CountryJP], top[CountryUS]),
		CountryTopASNs: top,
	})
	if err := f.Refresh(context.Background()); err != nil {
		vrt.Fatalf("geoip refresh: %v", err)
	}

	return f
}

func c05gLookup(f *File, s string) string {
	ip := netip.MustParseAddr(s)
	l, err := f.Data("", ip)
	if err != nil {
		return "error"
	}
	if l == nil {
		return "no-location"
	}
	fam := netutil.AddrFamilyIPv4
	if ip.Unmap().Is6() {
		fam = netutil.AddrFamilyIPv6
	}
	sub, serr := f.SubnetByLocation(&Location{Country: l.Country, Continent: l.Continent, TopSubdivision: l.TopSubdivision, ASN: l.ASN}, fam)

	return fmt.Sprintf("%s/%s/%s/asn%d subnet=%v,%v", l.Country, l.Continent, l.TopSubdivision, l.ASN, sub, serr != nil)
}

type c05gCase struct {
	Lookups []int `json:"lookups"`
}

func TestVerifC05GeoIP(t *testing.T) {
	r := vrt.Start("C05")
	depth := vrt.Pick(r, 3, 4)
	r.Bound("geoip_lookup_history_depth", depth)
	fresh := map[string]string{}
	for _, a := range c05gAddrs {
		fresh[a] = c05gLookup(c05gNew(), a)
	}
	vrt.Part(r, "geoip", func(emit func(c05gCase)) {
		vrt.Sequences(len(c05gAddrs), 1, depth, func(seq []int) { emit(c05gCase{Lookups: append([]int{}, seq...)}) })
	}, func(c c05gCase) []vrt.Finding {
		f := c05gNew()
		var obs []string
		for i, ai := range c.Lookups {
			a := c05gAddrs[ai]
			got := c05gLookup(f, a)
			r.Trans(1)
			obs = append(obs, got)
			if got != fresh[a] {
				return vrt.F("geoip/location-depends-on-earlier-lookups", "lookup %d of %v: GeoIP data for %s is %q after looking up %v, but %q on a freshly loaded database", i, c.Lookups, a, got, c.Lookups[:i], fresh[a])
			}
			if strings.HasPrefix(a, "::ffff:") {
				plain := strings.TrimPrefix(a, "::ffff:")
				if want := fresh[plain]; strings.SplitN(got, " ", 2)[0] != strings.SplitN(want, " ", 2)[0] {
					return vrt.F("geoip/mapped-address-located-differently", "GeoIP data for %s is %q but for %s it is %q", a, got, plain, want)
				}
			}
		}
		r.Class(strings.SplitN(obs[len(obs)-1], "/", 2)[0])
		r.State(strings.Join(obs, "|"))

		return nil
	})
	r.Finish()
	os.Exit(0)
}
