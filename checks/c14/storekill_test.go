//go:build verif

package profiledb

import (
	"bufio"
	"context"
	"crypto/sha256"
	"encoding/hex"
	"encoding/json"
	"fmt"
	"net/netip"
	"os"
	"os/exec"
	"path/filepath"
	"regexp"
	"runtime"
	"sort"
	"strconv"
	"strings"
	"testing"
	"testing/synctest"

	"github.com/AdguardTeam/AdGuardDNS/internal/agd"
	"github.com/AdguardTeam/AdGuardDNS/internal/dnsserver/zzverif/vrt"
)

// Store-kill unit (engine XK).
//
// Statement checked: "... and the cache file is replaced atomically."
//
// A child process (this test binary re-executed with C14_ROLE=store) opens a
// real profiledb.Default on an empty cache directory, synchronises content A
// (a full synchronisation writes the cache), writes the marker "C14-BEGIN",
// synchronises content B (a second full synchronisation replaces the cache)
// and writes "C14-END".  The parent runs the child under
//
//	strace -f -o <log> -e trace=<set> -e inject=<syscall>:signal=KILL:when=<k>
//
// for every system call of the set and every k between the two markers, so
// the process is SIGKILLed at the entry of each file-system call of the
// second store.  After every kill the cache file must be byte for byte the
// complete encoding of A or of B, and a restart child (C14_ROLE=restart:
// profiledb.New on the directory, with a storage that fails) must load it
// without an error and answer every lookup, with every setting, exactly as
// the reference restart on A or on B does: never a mix, never nothing.
//
// strace counts `when=` per thread and per system call, so the child locks its
// goroutine to one OS thread and the parent enumerates (syscall, k) pairs; the
// parent parses the log of every run to see where the kill really landed.

var c14kSyscalls = []string{
	"openat", "write", "pwrite64", "fsync", "fdatasync", "rename", "renameat", "renameat2",
	"unlink", "unlinkat", "ftruncate", "utimensat", "fchmod", "fchmodat", "linkat", "close",
}

const (
	c14kEnvRole    = "C14_ROLE"
	c14kEnvDir     = "C14_DIR"
	c14kEnvMark    = "C14_MARK"
	c14kEnvResult  = "C14_RESULT"
	c14kEnvContent = "C14_CONTENT"
	c14kEnvLarge   = "C14_LARGE"

	c14kBegin = "C14-BEGIN\n"
	c14kEnd   = "C14-END\n"

	c14kCacheFile = "cache.pb"

	// c14kSlack is how far beyond the dry-run count every system call is
	// enumerated; c14kMaxK fixes the shard assignment.
	c14kSlack = 2
	c14kMaxK  = 48
)

// ---- Contents ----------------------------------------------------------------

// c14kSmall is the small content: the richest world of the restart unit.
func c14kSmall() (resp *StorageProfilesResponse) {
	w := c14rBuildWorld(c14rCase{Devs: []c14rDev{{F: "World.Shape", V: "three-profiles-one-empty"}}})

	return w.response()
}

// c14kLargeContent is a content of n+1 profiles with two devices each.  It
// shares keys with the small content but gives them to other owners: profile
// p1 exists with other settings and without d1, and d1's linked address,
// dedicated address and human id belong to device d9 of profile p1.
func c14kLargeContent(n int) (resp *StorageProfilesResponse) {
	resp = c14kSmall()
	resp.Profiles, resp.Devices = nil, nil
	p1 := c14rPlainProf("p1")
	p1.FiltOn, p1.Mode, p1.TTL = true, "nxdomain", 77e9
	resp.Profiles = append(resp.Profiles, p1.build([]agd.DeviceID{"d9"}))
	d9 := &c14rDevice{
		ID: "d9", Linked: netip.MustParseAddr("192.0.2.10"), Dedicated: c14rAddrs("198.51.100.20"),
		Human: "my-dev-1", Name: "takes d1's keys", FiltOn: true,
	}
	resp.Devices = append(resp.Devices, d9.build())
	for i := 1; i <= n; i++ {
		var ps *c14rProf
		switch i % 3 {
		case 0:
			ps = c14rBaseProf()
		case 1:
			ps = c14rOtherProf()
		default:
			ps = c14rPlainProf("")
		}
		ps.ID = agd.ProfileID(fmt.Sprintf("q%05d", i))
		ps.CustomID = string(ps.ID)
		ps.RPS = uint32(i % 7)
		ids := []agd.DeviceID{agd.DeviceID(fmt.Sprintf("e%05dx", i)), agd.DeviceID(fmt.Sprintf("e%05dy", i))}
		resp.Profiles = append(resp.Profiles, ps.build(ids))
		hi, lo := byte(i>>8), byte(i)
		dx := &c14rDevice{
			ID: ids[0], AuthOn: true, DoHOnly: i%2 == 0, Bcrypt: true,
			Linked:    netip.AddrFrom4([4]byte{10, 200, hi, lo}),
			Dedicated: []netip.Addr{netip.AddrFrom4([4]byte{172, 16, hi, lo})},
			Name:      agd.DeviceName(fmt.Sprintf("устройство %d", i)), FiltOn: true,
		}
		dy := &c14rDevice{ID: ids[1], Human: agd.HumanIDLower(fmt.Sprintf("h-%d", i)), Name: "auto"}
		resp.Devices = append(resp.Devices, dx.build(), dy.build())
	}

	return resp
}

// c14kContents returns contents A and B of a content pair.
func c14kContents(pair string, large int) (a, b *StorageProfilesResponse) {
	switch pair {
	case "grow":
		return c14kSmall(), c14kLargeContent(large)
	case "shrink":
		return c14kLargeContent(large), c14kSmall()
	default:
		vrt.Fatalf("bad content pair %q", pair)

		return nil, nil
	}
}

// c14kObserve observes a database over the key universe of the restart unit
// extended by every key of both contents.
func c14kObserve(db *Default, large int) (o *c14rObs) {
	o = c14rObserve(db)
	ctx := context.Background()
	for _, resp := range []*StorageProfilesResponse{c14kSmall(), c14kLargeContent(large)} {
		owner := map[agd.DeviceID]agd.ProfileID{}
		for _, p := range resp.Profiles {
			for _, id := range p.DeviceIDs {
				owner[id] = p.ID
			}
		}
		for _, d := range resp.Devices {
			o.lookup("device-id", string(d.ID), func() (*agd.Profile, *agd.Device, error) { return db.ProfileByDeviceID(ctx, d.ID) })
			if d.LinkedIP.IsValid() {
				o.lookup("linked-ip", d.LinkedIP.String(), func() (*agd.Profile, *agd.Device, error) {
					return db.ProfileByLinkedIP(ctx, d.LinkedIP)
				})
			}
			for _, ip := range d.DedicatedIPs {
				o.lookup("dedicated-ip", ip.String(), func() (*agd.Profile, *agd.Device, error) {
					return db.ProfileByDedicatedIP(ctx, ip)
				})
			}
			if d.HumanIDLower != "" {
				pid := owner[d.ID]
				o.lookup("human-id", string(pid)+":"+string(d.HumanIDLower), func() (*agd.Profile, *agd.Device, error) {
					return db.ProfileByHumanID(ctx, pid, d.HumanIDLower)
				})
			}
		}
	}

	return o
}

// ---- Children ------------------------------------------------------------------

// c14kRestart is what the restart child reports.
type c14kRestart struct {
	Warns        []string `json:"warns"`
	Panic        string   `json:"panic"`
	StorageCalls int      `json:"storage_calls"`
	Digest       string   `json:"digest"`
	Profiles     int      `json:"profiles"`
	Devices      int      `json:"devices"`
	Found        int      `json:"found"`
	Lookups      int      `json:"lookups"`

	// Sample are the answers of the shared keys, for the messages.
	Sample string `json:"sample"`
}

func c14kChildFail(format string, args ...any) {
	fmt.Fprintf(os.Stderr, "C14-CHILD-ERROR: "+format+"\n", args...)
	os.Exit(3)
}

// TestVerifC14StoreKillChild is the child process of the store-kill unit.  It
// does nothing unless C14_ROLE is set.
func TestVerifC14StoreKillChild(t *testing.T) {
	role := os.Getenv(c14kEnvRole)
	if role == "" {
		t.Skip("not a C14 child")
	}
	dir := os.Getenv(c14kEnvDir)
	path := filepath.Join(dir, c14kCacheFile)
	large, _ := strconv.Atoi(os.Getenv(c14kEnvLarge))
	if large <= 0 {
		c14kChildFail("bad %s", c14kEnvLarge)
	}
	ctx := context.Background()

	switch role {
	case "store", "store-a-only":
		runtime.LockOSThread()
		a, b := c14kContents(os.Getenv(c14kEnvContent), large)
		mark, err := os.OpenFile(os.Getenv(c14kEnvMark), os.O_CREATE|os.O_WRONLY|os.O_APPEND, 0o600)
		if err != nil {
			c14kChildFail("opening marker file: %v", err)
		}
		log := c14rNewLog()
		db := c14rNewDB(path, &c14rStorage{resps: []*StorageProfilesResponse{a, b}}, log)
		if err = db.Refresh(ctx); err != nil {
			c14kChildFail("establishing content A: %v", err)
		}
		if role == "store-a-only" {
			os.Exit(0)
		}
		if _, err = mark.WriteString(c14kBegin); err != nil {
			c14kChildFail("writing marker: %v", err)
		}
		if err = db.Refresh(ctx); err != nil {
			c14kChildFail("storing content B: %v", err)
		}
		if _, err = mark.WriteString(c14kEnd); err != nil {
			c14kChildFail("writing marker: %v", err)
		}
		os.Exit(0)
	case "restart":
		res := c14kRestart{}
		// Under the virtual clock the rate-limiter probes do not depend on
		// how the machine schedules this process.
		synctest.Test(t, func(t *testing.T) {
			log := c14rNewLog()
			strg := &c14rStorage{}
			var db *Default
			var o *c14rObs
			res.Panic = vrt.Catch(func() {
				db = c14rNewDB(path, strg, log)
				res.Warns = log.take()
				o = c14kObserve(db, large)
			})
			res.StorageCalls = strg.calls
			if res.Panic != "" {
				return
			}
			h := sha256.Sum256([]byte(o.digest()))
			res.Digest = hex.EncodeToString(h[:12])
			res.Profiles, res.Devices = len(db.profiles), len(db.devices)
			res.Found, res.Lookups = o.found, len(o.lookups)
			res.Sample = fmt.Sprintf("device-id/d1=%s device-id/d9=%s linked-ip/192.0.2.10=%s human-id/p1:my-dev-1=%s",
				o.lookups["device-id/d1"], o.lookups["device-id/d9"], o.lookups["linked-ip/192.0.2.10"], o.lookups["human-id/p1:my-dev-1"])
		})
		data, _ := json.Marshal(res)
		if err := os.WriteFile(os.Getenv(c14kEnvResult), data, 0o600); err != nil {
			c14kChildFail("writing result: %v", err)
		}
		os.Exit(0)
	default:
		c14kChildFail("bad role %q", role)
	}
}

// ---- Parent --------------------------------------------------------------------

// c14kCase is one kill point: the K-th call of Sys after the BEGIN marker on
// the storing thread, for a content pair and a TMPDIR placement.
type c14kCase struct {
	Content string `json:"content"`
	Tmp     string `json:"tmpdir"`
	Sys     string `json:"syscall"`
	K       int    `json:"k"`

	// Torn, when positive, models a write that the kill interrupted half-way:
	// after the kill at the entry of the write call the parent writes the
	// Torn-th prefix (see c14kTornLen) of the call's buffer to the file the
	// call was writing to, as the kernel may have done.
	Torn int `json:"torn,omitempty"`
}

// c14kTornLen returns the length of the i-th (1-based) of n torn prefixes of a
// buffer of size bytes: 1 byte, evenly spaced lengths, all but one byte.
func c14kTornLen(i, n, size int) int {
	switch {
	case i <= 1:
		return 1
	case i >= n:
		return size - 1
	default:
		return size * (i - 1) / (n - 1)
	}
}

var (
	c14kOpenRe  = regexp.MustCompile(`^AT_FDCWD, "([^"]*)", .*\) = (\d+)$`)
	c14kWriteRe = regexp.MustCompile(`^(\d+), .*, (\d+)(?:\)\s+= \?| <unfinished \.\.\.>$)`)
)

// c14kTornTarget finds the file and the size of the write call at which the
// child was killed: the path most recently opened as that descriptor by the
// storing thread.
func c14kTornTarget(lines []c14kTraceLine, thread string) (path string, size int, ok bool) {
	if len(lines) == 0 {
		return "", 0, false
	}
	last := lines[len(lines)-1]
	m := c14kWriteRe.FindStringSubmatch(last.text)
	if last.sys != "write" || last.pid != thread || m == nil {
		return "", 0, false
	}
	size, _ = strconv.Atoi(m[2])
	for i := len(lines) - 2; i >= 0; i-- {
		tl := lines[i]
		if tl.pid != thread {
			continue
		}
		if tl.sys == "close" && strings.HasPrefix(tl.text, m[1]+")") {
			return "", 0, false
		}
		if om := c14kOpenRe.FindStringSubmatch(tl.text); tl.sys == "openat" && om != nil && om[2] == m[1] {
			return om[1], size, true
		}
	}

	return "", 0, false
}

func (c c14kCase) variant() string { return c.Content + "/" + c.Tmp }

// TMPDIR placements: renameio creates its temporary file in $TMPDIR when that
// is on the file system of the cache directory, else next to the cache file.
const (
	c14kTmpSame  = "tmpdir-on-cache-fs"
	c14kTmpOther = "tmpdir-on-other-fs"
)

type c14kTraceLine struct {
	pid  string
	sys  string
	text string
}

var (
	c14kTraceRe   = regexp.MustCompile(`^(\d+)\s+([a-z0-9_]+)\((.*)$`)
	c14kResumedRe = regexp.MustCompile(`^(\d+)\s+<\.\.\. ([a-z0-9_]+) resumed>(.*)$`)
)

const c14kUnfinished = " <unfinished ...>"

// c14kParseTrace returns the syscall-entry lines of a strace -f -o log and
// whether the process was killed by SIGKILL.
func c14kParseTrace(path string) (lines []c14kTraceLine, killed bool, err error) {
	f, err := os.Open(path)
	if err != nil {
		return nil, false, err
	}
	defer f.Close()
	sc := bufio.NewScanner(f)
	sc.Buffer(make([]byte, 1<<20), 1<<20)
	for sc.Scan() {
		ln := sc.Text()
		if strings.Contains(ln, "+++ killed by SIGKILL +++") {
			killed = true

			continue
		}
		if rm := c14kResumedRe.FindStringSubmatch(ln); rm != nil {
			// Join the two halves of a call that strace printed around the
			// events of other threads.
			for i := len(lines) - 1; i >= 0; i-- {
				if lines[i].pid == rm[1] && lines[i].sys == rm[2] && strings.HasSuffix(lines[i].text, c14kUnfinished) {
					lines[i].text = strings.TrimSuffix(lines[i].text, c14kUnfinished) + rm[3]

					break
				}
			}

			continue
		}
		m := c14kTraceRe.FindStringSubmatch(ln)
		if m == nil {
			continue
		}
		tl := c14kTraceLine{pid: m[1], sys: m[2], text: m[3]}
		if n := len(lines); n > 0 && strings.HasSuffix(tl.text, c14kUnfinished) &&
			lines[n-1].sys == tl.sys && lines[n-1].text == tl.text && lines[n-1].pid != tl.pid {
			// strace 6.1 sometimes prints the entry of the killed call a second
			// time under the id of another thread; it was entered once.
			continue
		}
		lines = append(lines, tl)
	}

	return lines, killed, sc.Err()
}

// c14kLanding describes where the traced child stood when the log ended.
type c14kLanding struct {
	phase    string // "before-begin", "store", "after-end"
	thread   string
	counts   map[string]int // calls of the storing thread after BEGIN, the killed one included
	n0       map[string]int // calls of that thread up to and including BEGIN
	last     c14kTraceLine
	cacheOps int
	ops      []string
	lines    []c14kTraceLine
}

func c14kAnalyse(lines []c14kTraceLine) (l c14kLanding) {
	l = c14kLanding{phase: "before-begin", counts: map[string]int{}, n0: map[string]int{}, lines: lines}
	beginAt, endAt := -1, -1
	for i, tl := range lines {
		if tl.sys == "write" && strings.Contains(tl.text, `"C14-BEGIN\n"`) {
			beginAt = i
			l.thread = tl.pid
		}
		if tl.sys == "write" && strings.Contains(tl.text, `"C14-END\n"`) {
			endAt = i
		}
	}
	if len(lines) > 0 {
		l.last = lines[len(lines)-1]
	}
	if beginAt < 0 {
		return l
	}
	l.phase = "store"
	if endAt >= 0 {
		l.phase = "after-end"
	}
	for i, tl := range lines {
		if tl.pid != l.thread {
			continue
		}
		switch {
		case i <= beginAt:
			l.n0[tl.sys]++
		case endAt < 0 || i < endAt:
			l.counts[tl.sys]++
			l.cacheOps++
			l.ops = append(l.ops, tl.sys)
		}
	}

	return l
}

type c14kDry struct {
	n0, n map[string]int
	total int
	ops   string
	encA  string
	encB  string
	refA  c14kRestart
	refB  c14kRestart

	// want holds the numbers of profiles and devices of contents A and B as
	// the storage delivered them.
	want map[string][2]int
}

type c14kRig struct {
	r      *vrt.Run
	exe    string
	strace string
	base   string // scratch on the cache file system
	other  string // scratch on another file system, "" if none
	large  int
	torn   int // number of torn prefixes per write call
	runNo  int
	kept   int
	dry    map[string]*c14kDry
}

func (g *c14kRig) childEnv(role string, c c14kCase, dir string, extra ...string) (env []string) {
	tmp := filepath.Join(filepath.Dir(dir), "tmp")
	if c.Tmp == c14kTmpOther {
		tmp = filepath.Join(g.other, "tmp-"+filepath.Base(filepath.Dir(dir)))
	}
	_ = os.MkdirAll(tmp, 0o700)
	for _, e := range os.Environ() {
		if strings.HasPrefix(e, "C14_") || strings.HasPrefix(e, "VERIF_") || strings.HasPrefix(e, "TMPDIR=") ||
			strings.HasPrefix(e, "GOMAXPROCS=") {
			continue
		}
		env = append(env, e)
	}
	env = append(env, c14kEnvRole+"="+role, c14kEnvDir+"="+dir, "TMPDIR="+tmp, "GOMAXPROCS=1",
		c14kEnvContent+"="+c.Content, c14kEnvLarge+"="+strconv.Itoa(g.large))

	return append(env, extra...)
}

func (g *c14kRig) newWork() (work, dir string) {
	g.runNo++
	work = filepath.Join(g.base, fmt.Sprintf("run%d", g.runNo))
	dir = filepath.Join(work, "cache")
	if err := os.MkdirAll(dir, 0o700); err != nil {
		vrt.Fatalf("creating run dir: %v", err)
	}

	return work, dir
}

// runStoreChild runs the store child under strace in a fresh directory; sys is
// "" for a dry run.
func (g *c14kRig) runStoreChild(c c14kCase, sys string, when int) (work, dir string, l c14kLanding, killed bool, exit int) {
	work, dir = g.newWork()
	logPath := filepath.Join(work, "strace.log")
	args := []string{"-f", "-o", logPath, "-e", "trace=" + strings.Join(c14kSyscalls, ",")}
	if sys != "" {
		args = append(args, "-e", fmt.Sprintf("inject=%s:signal=KILL:when=%d", sys, when))
	}
	args = append(args, g.exe, "-test.run", "^TestVerifC14StoreKillChild$", "-test.count=1", "-test.timeout=0")
	cmd := exec.Command(g.strace, args...)
	cmd.Env = g.childEnv("store", c, dir, c14kEnvMark+"="+filepath.Join(work, "marker"))
	cmd.Dir = work
	out, err := cmd.CombinedOutput()
	if err != nil {
		if ee, ok := err.(*exec.ExitError); ok {
			exit = ee.ExitCode()
		} else {
			vrt.Fatalf("starting strace: %v", err)
		}
	}
	if strings.Contains(string(out), "C14-CHILD-ERROR") {
		vrt.Fatalf("store child failed by itself: %s", out)
	}
	lines, killed, perr := c14kParseTrace(logPath)
	if perr != nil {
		vrt.Fatalf("parsing strace log: %v (%s)", perr, out)
	}

	return work, dir, c14kAnalyse(lines), killed, exit
}

// runRestartChild starts a database on dir in a fresh process.
func (g *c14kRig) runRestartChild(c c14kCase, work, dir string) (res c14kRestart) {
	resPath := filepath.Join(work, "restart.json")
	_ = os.Remove(resPath)
	cmd := exec.Command(g.exe, "-test.run", "^TestVerifC14StoreKillChild$", "-test.count=1", "-test.timeout=0")
	cmd.Env = g.childEnv("restart", c, dir, c14kEnvResult+"="+resPath)
	cmd.Dir = work
	out, rerr := cmd.CombinedOutput()
	data, ferr := os.ReadFile(resPath)
	if rerr != nil || ferr != nil || json.Unmarshal(data, &res) != nil {
		vrt.Fatalf("restart child broke: %v %v: %s", rerr, ferr, out)
	}

	return res
}

// readCacheDir returns the bytes of the cache file ("" and false when it does
// not exist) and the names of the other files of the directory.
func c14kReadCacheDir(dir string) (data string, ok bool, others []string) {
	ents, err := os.ReadDir(dir)
	if err != nil {
		vrt.Fatalf("reading cache dir: %v", err)
	}
	for _, e := range ents {
		if e.Name() != c14kCacheFile {
			others = append(others, e.Name())

			continue
		}
		b, rerr := os.ReadFile(filepath.Join(dir, e.Name()))
		if rerr != nil {
			vrt.Fatalf("reading cache file: %v", rerr)
		}
		data, ok = string(b), true
	}
	sort.Strings(others)

	return data, ok, others
}

// dryRun measures the per-syscall counts of a variant and records the
// reference encodings and reference restarts of contents A and B.
func (g *c14kRig) dryRun(c c14kCase) (d *c14kDry) {
	if d = g.dry[c.variant()]; d != nil {
		return d
	}
	work, dir, l, killed, exit := g.runStoreChild(c, "", 0)
	if killed || exit != 0 || l.phase != "after-end" {
		vrt.Fatalf("dry run of the store child did not complete (killed=%t exit=%d phase=%s)", killed, exit, l.phase)
	}
	d = &c14kDry{n0: l.n0, n: l.counts, total: l.cacheOps, ops: strings.Join(l.ops, " ")}
	var ok bool
	if d.encB, ok, _ = c14kReadCacheDir(dir); !ok {
		vrt.Fatalf("dry run left no cache file")
	}
	d.refB = g.runRestartChild(c, work, dir)
	_ = os.RemoveAll(work)

	// Content A alone.
	work, dir = g.newWork()
	cmd := exec.Command(g.exe, "-test.run", "^TestVerifC14StoreKillChild$", "-test.count=1", "-test.timeout=0")
	cmd.Env = g.childEnv("store-a-only", c, dir, c14kEnvMark+"="+filepath.Join(work, "marker"))
	cmd.Dir = work
	if out, err := cmd.CombinedOutput(); err != nil {
		vrt.Fatalf("reference child for content A: %v: %s", err, out)
	}
	if d.encA, ok, _ = c14kReadCacheDir(dir); !ok {
		vrt.Fatalf("reference run left no cache file")
	}
	d.refA = g.runRestartChild(c, work, dir)
	_ = os.RemoveAll(work)

	// The references must be usable: both load, differ from each other, find
	// something, and disagree on the keys that the contents share.
	for name, ref := range map[string]c14kRestart{"A": d.refA, "B": d.refB} {
		if ref.Panic != "" || len(ref.Warns) > 0 || ref.StorageCalls > 0 || ref.Found == 0 || ref.Profiles == 0 {
			vrt.Fatalf("reference restart on content %s is not clean: %+v", name, ref)
		}
	}
	if d.refA.Digest == d.refB.Digest || d.refA.Sample == d.refB.Sample || d.encA == d.encB {
		vrt.Fatalf("contents A and B are not distinguishable: %+v / %+v", d.refA, d.refB)
	}
	a, b := c14kContents(c.Content, g.large)
	d.want = map[string][2]int{"A": {len(a.Profiles), len(a.Devices)}, "B": {len(b.Profiles), len(b.Devices)}}
	g.dry[c.variant()] = d

	return d
}

func c14kClip(s string) string {
	if len(s) > 70 {
		return s[:70] + "…"
	}

	return s
}

func c14kShort(s string) string {
	h := sha256.Sum256([]byte(s))

	return fmt.Sprintf("%d bytes sha256 %s", len(s), hex.EncodeToString(h[:6]))
}

// runKillCase executes one kill point and judges the directory and the
// restart.  A kill that lands elsewhere than asked is judged like any other
// and the case is repeated.
func (g *c14kRig) runKillCase(c c14kCase) (fs []vrt.Finding) {
	seen := map[string]bool{}
	add := func(key, format string, args ...any) {
		if !seen[key] {
			seen[key] = true
			fs = append(fs, vrt.Finding{Key: key, Detail: fmt.Sprintf(format, args...)})
		}
	}
	hit := false
	for attempt := 1; attempt <= 3 && !hit; attempt++ {
		if hit = g.runKillOnce(add, c); !hit {
			g.r.Class("kill:off-target-repeated")
		}
	}
	if !hit {
		g.r.NotExhaustive(fmt.Sprintf("kill point %+v was not hit in 3 attempts", c))
	}

	return fs
}

func (g *c14kRig) runKillOnce(add func(key, format string, args ...any), c c14kCase) (onTarget bool) {
	d := g.dryRun(c)
	when := d.n0[c.Sys] + c.K
	work, dir, l, killed, exit := g.runStoreChild(c, c.Sys, when)
	if os.Getenv("C14_KEEP") == "" {
		defer os.RemoveAll(work)
	} else {
		fmt.Fprintf(os.Stderr, "C14-KEEP %+v work=%s landing=%+v\n", c, work, l)
	}
	g.r.Trans(l.cacheOps)
	at := fmt.Sprintf("kill %+v, landed at %s(%s", c, l.last.sys, c14kClip(l.last.text))

	switch {
	case !killed && l.phase == "after-end":
		onTarget = true
		g.r.Class("not-reached:child-completed")
	case !killed:
		vrt.Fatalf("kill case %+v: child neither killed nor complete (exit %d, phase %s)", c, exit, l.phase)
	case l.phase == "before-begin":
		g.r.Class("kill:before-begin(" + l.last.sys + ")")
	case l.phase == "after-end":
		onTarget = true
		g.r.Class("kill:after-end(" + l.last.sys + ")")
	default:
		site := l.last.sys
		onTarget = l.last.pid == l.thread && l.last.sys == c.Sys && l.counts[c.Sys] == c.K
		if !onTarget {
			site += "@off-target"
			g.r.Note("kill %+v landed at thread %s (storing thread %s) %s(%s, counts %v", c, l.last.pid, l.thread, l.last.sys,
				c14kClip(l.last.text), l.counts)
			g.keepLog(work)
		}
		if c.Torn > 0 {
			// The write was under way when the process died.
			if !onTarget {
				return false
			}
			path, size, ok := c14kTornTarget(l.lines, l.thread)
			if !ok {
				// Never seen once both halves of split strace lines are
				// joined; the case is repeated and reported if it persists.
				g.r.Class("torn-write:target-not-parsed")
				g.keepLog(work)

				return false
			}
			if size != len(d.encB) || !strings.HasPrefix(path, g.base) && (g.other == "" || !strings.HasPrefix(path, g.other)) {
				// Not the write of the cache data.
				g.r.Class("torn-write:not-the-cache-data(" + site + ")")

				return true
			}
			n := c14kTornLen(c.Torn, g.torn, size)
			f, err := os.OpenFile(path, os.O_WRONLY, 0)
			if err != nil {
				vrt.Fatalf("opening the target of the torn write: %v", err)
			}
			if _, err = f.WriteAt([]byte(d.encB[:n]), 0); err != nil {
				vrt.Fatalf("tearing the write: %v", err)
			}
			_ = f.Close()
			site += fmt.Sprintf(" torn at prefix %d of %d", c.Torn, g.torn)
			at += fmt.Sprintf(", %d of %d bytes written to %s", n, size, filepath.Base(path))
		}
		g.r.Class(fmt.Sprintf("kill:store(%s #%d of %d calls)", site, l.cacheOps, d.total))
	}

	// Directory invariant.
	data, ok, others := c14kReadCacheDir(dir)
	disk := "other"
	switch {
	case !ok:
		disk = "missing"
		if l.phase != "before-begin" {
			add("store-kill/cache-file-missing", "%s: the cache file is gone", at)
		}
	case data == d.encA:
		disk = "A"
	case data == d.encB:
		disk = "B"
	case l.phase == "before-begin":
		disk = "partial-before-begin"
	default:
		add("store-kill/cache-file-neither-old-nor-new",
			"%s: the cache file holds %s; complete encoding of the old content: %s, of the new content: %s",
			at, c14kShort(data), c14kShort(d.encA), c14kShort(d.encB))
	}
	if len(others) > 0 {
		g.r.Class("kill:temp-file-left-in-cache-dir")
	}

	// Restart.
	res := g.runRestartChild(c, work, dir)
	g.r.Trans(1 + res.Lookups)
	served := "other"
	switch {
	case res.Panic != "":
		served = "panic"
	case len(res.Warns) > 0:
		served = "load-error"
	case res.Digest == d.refA.Digest:
		served = "A"
	case res.Digest == d.refB.Digest:
		served = "B"
	case res.Profiles == 0 && res.Devices == 0:
		served = "empty"
	}
	g.r.State(fmt.Sprintf("%s|%s|%s|%d|disk=%s|served=%s|%s", c.variant(), l.phase, l.last.sys, l.cacheOps, disk, served, res.Digest))
	g.r.Count("restart-serves-"+served, 1)
	if l.phase == "before-begin" {
		return onTarget
	}
	switch served {
	case "panic":
		add("store-kill/restart-panics", "%s, cache file = %s: opening the database panics: %s", at, disk, res.Panic)
	case "load-error":
		add("store-kill/restart-load-error", "%s, cache file = %s: opening the database logs: %s", at, disk, strings.Join(res.Warns, "; "))
	case "A", "B":
		// The references come from the code under test as well (the second
		// store goes through the storage object that made the first), so
		// they are compared with the content itself.
		if w := d.want[served]; res.Profiles != w[0] || res.Devices != w[1] {
			add("store-kill/restart-content-is-not-the-last-complete-sync",
				"%s: the restarted database holds %d profiles and %d devices; the %s it was stored from has %d and %d",
				at, res.Profiles, res.Devices, map[string]string{"A": "first synchronisation", "B": "second synchronisation"}[served], w[0], w[1])
		}
		if (disk == "A" || disk == "B") && served != disk {
			add("store-kill/restart-differs-from-cache-file", "%s: the cache file is the complete content %s but the restarted database answers as content %s",
				at, disk, served)
		}
	default:
		add("store-kill/restart-neither-old-nor-new",
			"%s, cache file = %s: the restarted database (%d profiles, %d devices, %d of %d lookups found; %s) answers neither as the old content (%d profiles, %d devices; %s) nor as the new one (%d profiles, %d devices; %s)",
			at, disk, res.Profiles, res.Devices, res.Found, res.Lookups, res.Sample,
			d.refA.Profiles, d.refA.Devices, d.refA.Sample, d.refB.Profiles, d.refB.Devices, d.refB.Sample)
	}
	if res.StorageCalls > 0 {
		add("store-kill/restart-needs-storage", "%s: the restarted database called its storage %d times", at, res.StorageCalls)
	}

	return onTarget
}

// keepLog saves the strace log of an off-target run next to the shard file.
func (g *c14kRig) keepLog(work string) {
	out := os.Getenv("VERIF_OUT")
	if out == "" || g.kept >= 3 {
		return
	}
	g.kept++
	data, err := os.ReadFile(filepath.Join(work, "strace.log"))
	if err == nil {
		_ = os.WriteFile(fmt.Sprintf("%s.offtarget-%d.log", out, g.kept), data, 0o600)
	}
}

func TestVerifC14StoreKill(t *testing.T) {
	r := vrt.Start("C14")
	strace, err := exec.LookPath("strace")
	if err != nil {
		vrt.Fatalf("strace not found: %v", err)
	}
	exe, err := os.Executable()
	if err != nil {
		vrt.Fatalf("locating the test binary: %v", err)
	}
	g := &c14kRig{r: r, exe: exe, strace: strace, dry: map[string]*c14kDry{}}
	g.large = vrt.Pick(r, 600, 5000)
	g.torn = vrt.Pick(r, 3, 9)
	g.base = c14rScratch(t, false)
	tmps := []string{c14kTmpSame}
	// Another file system for TMPDIR: the unit's build directory when the
	// scratch is on tmpfs.
	if out := os.Getenv("VERIF_OUT"); out != "" && strings.HasPrefix(g.base, "/dev/shm") {
		g.other, err = os.MkdirTemp(filepath.Dir(out), "c14-kill-tmp-")
		if err == nil {
			tmps = append(tmps, c14kTmpOther)
		}
	}
	if len(tmps) == 1 {
		r.Note("store-kill: scratch %s is not on /dev/shm (full?) or no second file system is available: only the %s placement of TMPDIR is explored", g.base, c14kTmpSame)
	}
	cleanup := func() {
		if os.Getenv("C14_KEEP") != "" {
			return
		}
		_ = os.RemoveAll(g.base)
		if g.other != "" {
			_ = os.RemoveAll(g.other)
		}
	}
	r.Bound("storekill_large_content_profiles", g.large+1)
	r.Bound("storekill_syscalls", strings.Join(c14kSyscalls, ","))
	r.Bound("storekill_tmpdir_placements", strings.Join(tmps, ","))
	r.Bound("storekill_content_pairs", "grow(small->large),shrink(large->small)")
	r.Bound("storekill_torn_prefixes_per_write", g.torn)

	const part = "store-kill"
	var rc c14kCase
	if r.ReplayCase(part, &rc) {
		if rc.Tmp == c14kTmpOther && g.other == "" {
			vrt.Fatalf("replay needs a second file system for TMPDIR")
		}
		r.Eval()
		r.Report(part, rc, g.runKillCase(rc))
	} else if r.ShouldRun() {
		stop := false
		for _, content := range []string{"grow", "shrink"} {
			for _, tmp := range tmps {
				vc := c14kCase{Content: content, Tmp: tmp}
				d := g.dryRun(vc)
				// Stability of the trace: a second dry run must agree.
				delete(g.dry, vc.variant())
				d2 := g.dryRun(vc)
				if d.ops != d2.ops || fmt.Sprint(d.n0) != fmt.Sprint(d2.n0) {
					r.Note("variant %s: system calls differ between two dry runs: %v / %v vs %v / %v", vc.variant(), d.n0, d.ops, d2.n0, d2.ops)
				}
				if d.encA != d2.encA || d.encB != d2.encB || d.refA.Digest != d2.refA.Digest || d.refB.Digest != d2.refB.Digest {
					vrt.Fatalf("variant %s: the cache encoding or the reference restart is not deterministic", vc.variant())
				}
				r.Bound("storekill_calls_of_the_store_"+vc.variant(), d.ops)
				r.Bound("storekill_cache_bytes_"+vc.variant(), fmt.Sprintf("old %d, new %d", len(d.encA), len(d.encB)))
				for _, sys := range c14kSyscalls {
					if d.n[sys]+c14kSlack > c14kMaxK {
						r.NotExhaustive(fmt.Sprintf("%s: %d %s calls exceed the enumeration width", vc.variant(), d.n[sys], sys))
					}
					for k := 1; k <= c14kMaxK; k++ {
						for torn := 0; torn <= g.torn; torn++ {
							mine := r.Mine()
							limit := d.n[sys] + c14kSlack
							if d.n[sys] == 0 {
								limit = 1
							}
							if stop || !mine || k > limit || torn > 0 && (sys != "write" || k > d.n[sys]) {
								continue
							}
							if r.Expired() {
								stop = true
								r.Note("store-kill part stopped by internal deadline")

								continue
							}
							c := c14kCase{Content: content, Tmp: tmp, Sys: sys, K: k, Torn: torn}
							r.Eval()
							fs := g.runKillCase(c)
							r.Sample(c)
							r.Report(part, c, fs)
						}
					}
				}
			}
		}
	}

	r.Finish()
	cleanup()
	os.Exit(0)
}
