//go:build verif

package profiledb

import (
	"context"
	"crypto/sha256"
	"encoding/hex"
	"errors"
	"fmt"
	"log/slog"
	"math"
	"net/netip"
	"os"
	"path/filepath"
	"slices"
	"sort"
	"strings"
	"sync"
	"testing"
	"testing/synctest"
	"time"

	"github.com/AdguardTeam/AdGuardDNS/internal/access"
	"github.com/AdguardTeam/AdGuardDNS/internal/agd"
	"github.com/AdguardTeam/AdGuardDNS/internal/agdpasswd"
	"github.com/AdguardTeam/AdGuardDNS/internal/agdtime"
	"github.com/AdguardTeam/AdGuardDNS/internal/dnsmsg"
	"github.com/AdguardTeam/AdGuardDNS/internal/dnsserver/zzverif/vrt"
	"github.com/AdguardTeam/AdGuardDNS/internal/filter"
	"github.com/AdguardTeam/AdGuardDNS/internal/geoip"
	"github.com/c2h5oh/datasize"
	"github.com/miekg/dns"
)

// Restart unit (engine XE).
//
// Statement checked: "A database restarted from its file cache answers every
// lookup as it did when the cache was written, with every profile and device
// setting preserved".
//
// A case is a set of deviations from a base world (one profile and one device
// with every field set to a non-default value).  Every case runs the real
// code: profiledb.New on <scratch>/case.pb with a scripted Storage, Refresh (a
// full synchronisation, which writes the cache file), a second profiledb.New
// on the same file with a Storage that must never be called.  The observation
// of the second database (all lookups of a fixed key universe + a field by
// field dump of every profile and device, opaque values dumped by behaviour)
// must equal the observation of the first database.

// ---- Specifications of profiles and devices ---------------------------------

// c14rProf is the specification of a profile; build makes a fresh agd.Profile.
type c14rProf struct {
	ID          agd.ProfileID
	Mode        string
	AccessOn    bool
	AllowedNets []netip.Prefix
	BlockedNets []netip.Prefix
	AllowedASN  []geoip.ASN
	BlockedASN  []geoip.ASN
	AccessRules []string
	RLOn        bool
	RLSubnets   []netip.Prefix
	RPS         uint32
	CustomID    string
	CustomTime  func() time.Time
	CustomRules []filter.RuleText
	CustomOn    bool
	ParOn       bool
	Adult       bool
	SSGeneral   bool
	SSYouTube   bool
	Services    []filter.BlockedServiceID
	SchedOn     bool
	Week        [7]*filter.DayInterval
	TZ          string
	RuleListIDs []filter.ID
	RuleListOn  bool
	SBOn        bool
	SBDanger    bool
	SBNewly     bool
	TTL         time.Duration
	Auto        bool
	Chrome      bool
	Firefox     bool
	Relay       bool
	Deleted     bool
	FiltOn      bool
	IPLog       bool
	QLog        bool
}

// c14rDevice is the specification of a device.
type c14rDevice struct {
	ID        agd.DeviceID
	AuthOn    bool
	DoHOnly   bool
	Bcrypt    bool
	Linked    netip.Addr
	Name      agd.DeviceName
	Human     agd.HumanIDLower
	Dedicated []netip.Addr
	FiltOn    bool
}

// c14rRespSzEst is the response-size estimate given to both databases.
const c14rRespSzEst = 100 * datasize.B

// c14rBcryptHash is bcrypt(c14rPassword) at the minimum cost; fixed so that
// the cache encoding is the same in every process.
const (
	c14rBcryptHash = "$2a$04$L57wxWZaK98ljoWX8XI0U.r2IZFP/MD7FJHV.NEq3esj1zudgy6E."
	c14rPassword   = "right-password"
)

func c14rAddrs(ss ...string) (out []netip.Addr) {
	out = []netip.Addr{}
	for _, s := range ss {
		out = append(out, netip.MustParseAddr(s))
	}

	return out
}

func c14rNets(ss ...string) (out []netip.Prefix) {
	out = []netip.Prefix{}
	for _, s := range ss {
		out = append(out, netip.MustParsePrefix(s))
	}

	return out
}

// c14rModes are the blocking modes by name.
var c14rModes = map[string]func() dnsmsg.BlockingMode{
	"custom-v4-v6": func() dnsmsg.BlockingMode {
		return &dnsmsg.BlockingModeCustomIP{IPv4: c14rAddrs("192.0.2.66"), IPv6: c14rAddrs("2001:db8::66")}
	},
	"custom-v4-only": func() dnsmsg.BlockingMode {
		return &dnsmsg.BlockingModeCustomIP{IPv4: c14rAddrs("192.0.2.66")}
	},
	"custom-v6-only": func() dnsmsg.BlockingMode {
		return &dnsmsg.BlockingModeCustomIP{IPv6: c14rAddrs("2001:db8::66")}
	},
	"custom-v6-only-empty-v4-slice": func() dnsmsg.BlockingMode {
		return &dnsmsg.BlockingModeCustomIP{IPv4: []netip.Addr{}, IPv6: c14rAddrs("2001:db8::67")}
	},
	"custom-several": func() dnsmsg.BlockingMode {
		return &dnsmsg.BlockingModeCustomIP{
			IPv4: c14rAddrs("192.0.2.66", "192.0.2.67"),
			IPv6: c14rAddrs("2001:db8::66", "2001:db8::67"),
		}
	},
	"custom-v4-three": func() dnsmsg.BlockingMode {
		return &dnsmsg.BlockingModeCustomIP{IPv4: c14rAddrs("192.0.2.68", "192.0.2.66", "192.0.2.67")}
	},
	"nxdomain": func() dnsmsg.BlockingMode { return &dnsmsg.BlockingModeNXDOMAIN{} },
	"refused":  func() dnsmsg.BlockingMode { return &dnsmsg.BlockingModeREFUSED{} },
	"null-ip":  func() dnsmsg.BlockingMode { return &dnsmsg.BlockingModeNullIP{} },
}

var c14rLocCache sync.Map

func c14rLoc(name string) (l *agdtime.Location) {
	if v, ok := c14rLocCache.Load(name); ok {
		return v.(*agdtime.Location)
	}
	l, err := agdtime.LoadLocation(name)
	if err != nil {
		vrt.Fatalf("loading time zone %q: %v", name, err)
	}
	c14rLocCache.Store(name, l)

	return l
}

func (s *c14rProf) build(devIDs []agd.DeviceID) (p *agd.Profile) {
	mk, ok := c14rModes[s.Mode]
	if !ok {
		vrt.Fatalf("bad blocking mode %q", s.Mode)
	}
	var acc access.Profile = access.EmptyProfile{}
	if s.AccessOn {
		acc = access.NewDefaultProfile(&access.ProfileConfig{
			AllowedNets:          slices.Clone(s.AllowedNets),
			BlockedNets:          slices.Clone(s.BlockedNets),
			AllowedASN:           slices.Clone(s.AllowedASN),
			BlockedASN:           slices.Clone(s.BlockedASN),
			BlocklistDomainRules: slices.Clone(s.AccessRules),
		})
	}
	var rl agd.Ratelimiter = agd.GlobalRatelimiter{}
	if s.RLOn {
		rl = agd.NewDefaultRatelimiter(&agd.RatelimitConfig{
			ClientSubnets: slices.Clone(s.RLSubnets),
			RPS:           s.RPS,
			Enabled:       true,
		}, c14rRespSzEst)
	}
	var sched *filter.ConfigSchedule
	if s.SchedOn {
		week := filter.WeeklySchedule{}
		for i, d := range s.Week {
			if d != nil {
				c := *d
				week[i] = &c
			}
		}
		loc := *c14rLoc(s.TZ)
		sched = &filter.ConfigSchedule{Week: &week, TimeZone: &loc}
	}
	var updTime time.Time
	if s.CustomTime != nil {
		updTime = s.CustomTime()
	}

	return &agd.Profile{
		FilterConfig: &filter.ConfigClient{
			Custom: &filter.ConfigCustom{
				ID:         s.CustomID,
				UpdateTime: updTime,
				Rules:      slices.Clone(s.CustomRules),
				Enabled:    s.CustomOn,
			},
			Parental: &filter.ConfigParental{
				PauseSchedule:            sched,
				BlockedServices:          slices.Clone(s.Services),
				Enabled:                  s.ParOn,
				AdultBlockingEnabled:     s.Adult,
				SafeSearchGeneralEnabled: s.SSGeneral,
				SafeSearchYouTubeEnabled: s.SSYouTube,
			},
			RuleList: &filter.ConfigRuleList{
				IDs:     slices.Clone(s.RuleListIDs),
				Enabled: s.RuleListOn,
			},
			SafeBrowsing: &filter.ConfigSafeBrowsing{
				Enabled:                       s.SBOn,
				DangerousDomainsEnabled:       s.SBDanger,
				NewlyRegisteredDomainsEnabled: s.SBNewly,
			},
		},
		Access:              acc,
		BlockingMode:        mk(),
		Ratelimiter:         rl,
		ID:                  s.ID,
		DeviceIDs:           slices.Clone(devIDs),
		FilteredResponseTTL: s.TTL,
		AutoDevicesEnabled:  s.Auto,
		BlockChromePrefetch: s.Chrome,
		BlockFirefoxCanary:  s.Firefox,
		BlockPrivateRelay:   s.Relay,
		Deleted:             s.Deleted,
		FilteringEnabled:    s.FiltOn,
		IPLogEnabled:        s.IPLog,
		QueryLogEnabled:     s.QLog,
	}
}

func (s *c14rDevice) build() (d *agd.Device) {
	auth := &agd.AuthSettings{Enabled: false, PasswordHash: agdpasswd.AllowAuthenticator{}}
	if s.AuthOn {
		auth = &agd.AuthSettings{Enabled: true, DoHAuthOnly: s.DoHOnly, PasswordHash: agdpasswd.AllowAuthenticator{}}
		if s.Bcrypt {
			auth.PasswordHash = agdpasswd.NewPasswordHashBcrypt([]byte(c14rBcryptHash))
		}
	}

	return &agd.Device{
		Auth:             auth,
		ID:               s.ID,
		LinkedIP:         s.Linked,
		Name:             s.Name,
		HumanIDLower:     s.Human,
		DedicatedIPs:     slices.Clone(s.Dedicated),
		FilteringEnabled: s.FiltOn,
	}
}

func c14rDay(start, end uint16) *filter.DayInterval {
	return &filter.DayInterval{Start: start, End: end}
}

var c14rBaseTime = time.Date(2024, 5, 6, 7, 8, 9, 123456789, time.UTC)

// c14rBaseProf is the base profile p1: every field has a non-default value.
func c14rBaseProf() (s *c14rProf) {
	return &c14rProf{
		ID:          "p1",
		Mode:        "custom-v4-v6",
		AccessOn:    true,
		AllowedNets: c14rNets("10.1.0.0/16"),
		BlockedNets: c14rNets("10.0.0.0/8"),
		AllowedASN:  []geoip.ASN{64500},
		BlockedASN:  []geoip.ASN{64510},
		AccessRules: []string{"||blocked-one.test^"},
		RLOn:        true,
		RLSubnets:   c14rNets("198.51.100.0/24"),
		RPS:         3,
		CustomID:    "p1",
		CustomTime:  func() time.Time { return c14rBaseTime },
		CustomRules: []filter.RuleText{"||custom-one.test^", "@@||custom-two.test^"},
		CustomOn:    true,
		ParOn:       true,
		Adult:       true,
		SSGeneral:   true,
		SSYouTube:   true,
		Services:    []filter.BlockedServiceID{"svc_one", "svc_two"},
		SchedOn:     true,
		// Sunday first, as time.Weekday.  Every day differs, so a shifted or
		// permuted week is visible.
		Week: [7]*filter.DayInterval{
			nil, c14rDay(0, 1440), c14rDay(1439, 1440), c14rDay(0, 1), c14rDay(600, 720), nil, c14rDay(1, 1439),
		},
		TZ:          "Europe/Brussels",
		RuleListIDs: []filter.ID{"list_one", "list_two"},
		RuleListOn:  true,
		SBOn:        true,
		SBDanger:    true,
		SBNewly:     true,
		TTL:         10 * time.Second,
		Auto:        true,
		Chrome:      true,
		Firefox:     true,
		Relay:       true,
		Deleted:     false,
		FiltOn:      true,
		IPLog:       true,
		QLog:        true,
	}
}

// c14rOtherProf is p2: also rich, but different from p1 in every value, so
// that settings restored into the wrong profile are visible.
func c14rOtherProf() (s *c14rProf) {
	return &c14rProf{
		ID:          "p2",
		Mode:        "refused",
		AccessOn:    true,
		AllowedNets: c14rNets("2001:db8:1::/48"),
		BlockedNets: c14rNets("2001:db8::/32", "192.0.2.0/24"),
		AllowedASN:  nil,
		BlockedASN:  []geoip.ASN{64511},
		AccessRules: []string{"||blocked-two.test^$dnstype=AAAA"},
		RLOn:        true,
		RLSubnets:   nil,
		RPS:         1,
		CustomID:    "p2",
		CustomTime:  func() time.Time { return time.Date(2022, 2, 2, 2, 2, 2, 0, time.UTC) },
		CustomRules: []filter.RuleText{"||p2-rule.test^"},
		CustomOn:    true,
		ParOn:       true,
		Adult:       false,
		SSGeneral:   true,
		SSYouTube:   false,
		Services:    []filter.BlockedServiceID{"svc_three"},
		SchedOn:     true,
		Week: [7]*filter.DayInterval{
			c14rDay(30, 90), nil, nil, nil, nil, nil, nil,
		},
		TZ:          "Asia/Kolkata",
		RuleListIDs: []filter.ID{"list_three"},
		RuleListOn:  true,
		SBOn:        true,
		SBDanger:    false,
		SBNewly:     true,
		TTL:         time.Hour,
		Auto:        false,
		Chrome:      true,
		Firefox:     false,
		Relay:       true,
		FiltOn:      true,
		IPLog:       false,
		QLog:        true,
	}
}

// c14rPlainProf is a profile with every field at its default, as the backend
// conversion produces it for an empty message.
func c14rPlainProf(id agd.ProfileID) (s *c14rProf) {
	return &c14rProf{ID: id, Mode: "null-ip", CustomID: string(id), RuleListIDs: []filter.ID{}}
}

func c14rBaseDev() (s *c14rDevice) {
	return &c14rDevice{
		ID:        "d1",
		AuthOn:    true,
		DoHOnly:   true,
		Bcrypt:    true,
		Linked:    netip.MustParseAddr("192.0.2.10"),
		Name:      "Device One",
		Human:     "my-dev-1",
		Dedicated: c14rAddrs("198.51.100.20"),
		FiltOn:    true,
	}
}

// c14rFixedDevs are the devices other than d1.
func c14rFixedDev(id agd.DeviceID) (s *c14rDevice) {
	switch id {
	case "d2":
		// Everything default.
		return &c14rDevice{ID: "d2"}
	case "d3":
		return &c14rDevice{
			ID: "d3", AuthOn: true, Linked: netip.MustParseAddr("2001:db8::30"), Name: "Третье устройство",
			Human: "other-h", Dedicated: c14rAddrs("198.51.100.30", "2001:db8::31"), FiltOn: true,
		}
	case "d4":
		// Same human id as d1, in another profile.
		return &c14rDevice{ID: "d4", Human: "my-dev-1", Name: "d4", FiltOn: true}
	case "d5":
		return &c14rDevice{ID: "d5", Linked: netip.MustParseAddr("192.0.2.50"), AuthOn: true, DoHOnly: true}
	default:
		vrt.Fatalf("bad device id %q", id)

		return nil
	}
}

// ---- Fields and their alternatives -------------------------------------------

type c14rAlt struct {
	name  string
	p     func(s *c14rProf)
	d     func(s *c14rDevice)
	shape string
}

type c14rField struct {
	name  string
	group string // "profile", "device", "world"
	alts  []c14rAlt
}

func pAlt(name string, f func(s *c14rProf)) c14rAlt   { return c14rAlt{name: name, p: f} }
func dAlt(name string, f func(s *c14rDevice)) c14rAlt { return c14rAlt{name: name, d: f} }

func pBool(name string, get func(s *c14rProf) *bool) c14rField {
	return c14rField{name: name, group: "profile", alts: []c14rAlt{
		pAlt("flipped", func(s *c14rProf) { b := get(s); *b = !*b }),
	}}
}

// c14rOnlyProf returns an alternative that replaces p1 by an all-default
// profile in which only the settings copied by keep have the base values.
func c14rOnlyProf(name string, keep func(dst, base *c14rProf)) c14rAlt {
	return pAlt(name, func(s *c14rProf) {
		plain := c14rPlainProf(s.ID)
		if keep != nil {
			keep(plain, c14rBaseProf())
		}
		*s = *plain
	})
}

// c14rOnlyDev is c14rOnlyProf for device d1.
func c14rOnlyDev(name string, keep func(dst, base *c14rDevice)) c14rAlt {
	return dAlt(name, func(s *c14rDevice) {
		plain := &c14rDevice{ID: s.ID}
		if keep != nil {
			keep(plain, c14rBaseDev())
		}
		*s = *plain
	})
}

// c14rAccessParts are the five lists of the access settings.
var c14rAccessParts = []struct {
	name string
	copy func(dst, base *c14rProf)
}{
	{"allowed-nets", func(dst, base *c14rProf) { dst.AllowedNets = base.AllowedNets }},
	{"blocked-nets", func(dst, base *c14rProf) { dst.BlockedNets = base.BlockedNets }},
	{"allowed-asn", func(dst, base *c14rProf) { dst.AllowedASN = base.AllowedASN }},
	{"blocked-asn", func(dst, base *c14rProf) { dst.BlockedASN = base.BlockedASN }},
	{"rules", func(dst, base *c14rProf) { dst.AccessRules = base.AccessRules }},
}

// c14rAccessOnlyAlts are the access settings with exactly one list, and with
// exactly two lists, non-empty.
func c14rAccessOnlyAlts() (alts []c14rAlt) {
	only := func(name string, idx ...int) {
		alts = append(alts, pAlt(name, func(s *c14rProf) {
			base := c14rBaseProf()
			s.AccessOn = true
			s.AllowedNets, s.BlockedNets, s.AllowedASN, s.BlockedASN, s.AccessRules = nil, nil, nil, nil, nil
			for _, i := range idx {
				c14rAccessParts[i].copy(s, base)
			}
		}))
	}
	only("enabled-all-lists-empty")
	for i, pt := range c14rAccessParts {
		only("only-"+pt.name, i)
	}
	for i, a := range c14rAccessParts {
		for j := i + 1; j < len(c14rAccessParts); j++ {
			only("only-"+a.name+"+"+c14rAccessParts[j].name, i, j)
		}
	}

	return alts
}

// c14rZero* reset a composite setting to its zero value.
func c14rZeroParental(s *c14rProf) {
	s.ParOn, s.Adult, s.SSGeneral, s.SSYouTube, s.Services, s.SchedOn = false, false, false, false, nil, false
}

func c14rZeroSafeBrowsing(s *c14rProf) { s.SBOn, s.SBDanger, s.SBNewly = false, false, false }

func c14rZeroCustom(s *c14rProf) { s.CustomID, s.CustomTime, s.CustomRules, s.CustomOn = "", nil, nil, false }

func c14rZeroFlags(s *c14rProf) {
	s.Auto, s.Chrome, s.Firefox, s.Relay, s.Deleted, s.FiltOn, s.IPLog, s.QLog = false, false, false, false, false, false, false, false
}

func c14rCopyParental(dst, base *c14rProf) {
	dst.ParOn, dst.Adult, dst.SSGeneral, dst.SSYouTube = base.ParOn, base.Adult, base.SSGeneral, base.SSYouTube
	dst.Services, dst.SchedOn, dst.Week, dst.TZ = base.Services, base.SchedOn, base.Week, base.TZ
}

// c14rBaseShape is the world of the base case; see c14rParseShape.
const c14rBaseShape = "p1:d1"

// c14rFields is the list of fields with their alternatives to the base value.
var c14rFields = []c14rField{
	{name: "World.Shape", group: "world", alts: []c14rAlt{
		{name: "three-devices", shape: "p1:d1,d2,d3"},
		{name: "two-profiles", shape: "p1:d1;p2:d4"},
		{name: "two-profiles-p1-last", shape: "p2:d4,d5;p1:d2,d1"},
		{name: "three-profiles-one-empty", shape: "p1:d1,d2,d3;p2:d4,d5;p3:"},
		{name: "p1-without-devices", shape: "p1:;p2:d4"},
		{name: "no-devices-at-all", shape: "p1:"},
	}},
	// "Only this is set" alternatives, whole record: an all-default profile
	// that keeps the base value of one composite setting.  They come before
	// the finer fields, whose deviations are applied on top.
	{name: "Profile.Record", group: "profile", alts: []c14rAlt{
		c14rOnlyProf("all-default", nil),
		c14rOnlyProf("only-blocking-mode", func(dst, base *c14rProf) { dst.Mode = base.Mode }),
		c14rOnlyProf("only-access", func(dst, base *c14rProf) {
			dst.AccessOn = true
			for _, pt := range c14rAccessParts {
				pt.copy(dst, base)
			}
		}),
		c14rOnlyProf("only-ratelimiter", func(dst, base *c14rProf) { dst.RLOn, dst.RLSubnets, dst.RPS = true, base.RLSubnets, base.RPS }),
		c14rOnlyProf("only-custom-filter", func(dst, base *c14rProf) {
			dst.CustomID, dst.CustomTime, dst.CustomRules, dst.CustomOn = base.CustomID, base.CustomTime, base.CustomRules, base.CustomOn
		}),
		c14rOnlyProf("only-parental", c14rCopyParental),
		c14rOnlyProf("only-rule-list", func(dst, base *c14rProf) { dst.RuleListIDs, dst.RuleListOn = base.RuleListIDs, base.RuleListOn }),
		c14rOnlyProf("only-safe-browsing", func(dst, base *c14rProf) { dst.SBOn, dst.SBDanger, dst.SBNewly = true, true, true }),
		c14rOnlyProf("only-filtered-response-ttl", func(dst, base *c14rProf) { dst.TTL = base.TTL }),
		c14rOnlyProf("only-flags", func(dst, base *c14rProf) {
			dst.Auto, dst.Chrome, dst.Firefox, dst.Relay, dst.FiltOn, dst.IPLog, dst.QLog = true, true, true, true, true, true, true
		}),
	}},
	// "Only this is set" alternatives inside the composite settings.
	{name: "Profile.FilterConfig.Custom", group: "profile", alts: []c14rAlt{
		pAlt("all-zero", c14rZeroCustom),
		pAlt("only-id", func(s *c14rProf) { id := s.CustomID; c14rZeroCustom(s); s.CustomID = id }),
		pAlt("only-update-time", func(s *c14rProf) { t := s.CustomTime; c14rZeroCustom(s); s.CustomTime = t }),
		pAlt("only-rules", func(s *c14rProf) { r := s.CustomRules; c14rZeroCustom(s); s.CustomRules = r }),
		pAlt("only-enabled", func(s *c14rProf) { c14rZeroCustom(s); s.CustomOn = true }),
	}},
	{name: "Profile.FilterConfig.Parental", group: "profile", alts: []c14rAlt{
		pAlt("all-zero", c14rZeroParental),
		pAlt("only-enabled", func(s *c14rProf) { c14rZeroParental(s); s.ParOn = true }),
		pAlt("only-adult-blocking", func(s *c14rProf) { c14rZeroParental(s); s.Adult = true }),
		pAlt("only-safe-search-general", func(s *c14rProf) { c14rZeroParental(s); s.SSGeneral = true }),
		pAlt("only-safe-search-youtube", func(s *c14rProf) { c14rZeroParental(s); s.SSYouTube = true }),
		pAlt("only-blocked-services", func(s *c14rProf) { v := s.Services; c14rZeroParental(s); s.Services = v }),
		pAlt("only-pause-schedule", func(s *c14rProf) { c14rZeroParental(s); s.SchedOn = true }),
	}},
	{name: "Profile.FilterConfig.RuleList", group: "profile", alts: []c14rAlt{
		pAlt("all-zero", func(s *c14rProf) { s.RuleListIDs, s.RuleListOn = nil, false }),
	}},
	{name: "Profile.FilterConfig.SafeBrowsing", group: "profile", alts: []c14rAlt{
		pAlt("all-zero", c14rZeroSafeBrowsing),
		pAlt("only-enabled", func(s *c14rProf) { c14rZeroSafeBrowsing(s); s.SBOn = true }),
		pAlt("only-dangerous-domains", func(s *c14rProf) { c14rZeroSafeBrowsing(s); s.SBDanger = true }),
		pAlt("only-newly-registered-domains", func(s *c14rProf) { c14rZeroSafeBrowsing(s); s.SBNewly = true }),
	}},
	{name: "Profile.Flags", group: "profile", alts: []c14rAlt{
		pAlt("all-false", c14rZeroFlags),
		pAlt("only-AutoDevicesEnabled", func(s *c14rProf) { c14rZeroFlags(s); s.Auto = true }),
		pAlt("only-BlockChromePrefetch", func(s *c14rProf) { c14rZeroFlags(s); s.Chrome = true }),
		pAlt("only-BlockFirefoxCanary", func(s *c14rProf) { c14rZeroFlags(s); s.Firefox = true }),
		pAlt("only-BlockPrivateRelay", func(s *c14rProf) { c14rZeroFlags(s); s.Relay = true }),
		pAlt("only-Deleted", func(s *c14rProf) { c14rZeroFlags(s); s.Deleted = true }),
		pAlt("only-FilteringEnabled", func(s *c14rProf) { c14rZeroFlags(s); s.FiltOn = true }),
		pAlt("only-IPLogEnabled", func(s *c14rProf) { c14rZeroFlags(s); s.IPLog = true }),
		pAlt("only-QueryLogEnabled", func(s *c14rProf) { c14rZeroFlags(s); s.QLog = true }),
	}},
	{name: "Profile.BlockingMode", group: "profile", alts: []c14rAlt{
		pAlt("custom-v4-only", func(s *c14rProf) { s.Mode = "custom-v4-only" }),
		pAlt("custom-v6-only", func(s *c14rProf) { s.Mode = "custom-v6-only" }),
		pAlt("custom-v6-only-empty-v4-slice", func(s *c14rProf) { s.Mode = "custom-v6-only-empty-v4-slice" }),
		pAlt("custom-several", func(s *c14rProf) { s.Mode = "custom-several" }),
		pAlt("custom-v4-three", func(s *c14rProf) { s.Mode = "custom-v4-three" }),
		pAlt("nxdomain", func(s *c14rProf) { s.Mode = "nxdomain" }),
		pAlt("refused", func(s *c14rProf) { s.Mode = "refused" }),
		pAlt("null-ip", func(s *c14rProf) { s.Mode = "null-ip" }),
	}},
	{name: "Profile.Access", group: "profile", alts: append([]c14rAlt{
		pAlt("empty-profile", func(s *c14rProf) { s.AccessOn = false }),
	}, c14rAccessOnlyAlts()...)},
	{name: "Profile.Access.AllowedNets", group: "profile", alts: []c14rAlt{
		pAlt("nil", func(s *c14rProf) { s.AllowedNets = nil }),
		pAlt("empty", func(s *c14rProf) { s.AllowedNets = []netip.Prefix{} }),
		pAlt("two", func(s *c14rProf) { s.AllowedNets = c14rNets("10.1.0.0/16", "2001:db8:1::/48") }),
	}},
	{name: "Profile.Access.BlockedNets", group: "profile", alts: []c14rAlt{
		pAlt("nil", func(s *c14rProf) { s.BlockedNets = nil }),
		pAlt("two", func(s *c14rProf) { s.BlockedNets = c14rNets("10.0.0.0/8", "2001:db8::/32") }),
	}},
	{name: "Profile.Access.AllowedASN", group: "profile", alts: []c14rAlt{
		pAlt("nil", func(s *c14rProf) { s.AllowedASN = nil }),
		pAlt("two", func(s *c14rProf) { s.AllowedASN = []geoip.ASN{64500, 64501} }),
	}},
	{name: "Profile.Access.BlockedASN", group: "profile", alts: []c14rAlt{
		pAlt("nil", func(s *c14rProf) { s.BlockedASN = nil }),
		pAlt("two", func(s *c14rProf) { s.BlockedASN = []geoip.ASN{64510, 4294967295} }),
	}},
	{name: "Profile.Access.BlocklistDomainRules", group: "profile", alts: []c14rAlt{
		pAlt("nil", func(s *c14rProf) { s.AccessRules = nil }),
		pAlt("two", func(s *c14rProf) {
			s.AccessRules = []string{"||blocked-one.test^", "||blocked-two.test^$dnstype=AAAA"}
		}),
	}},
	{name: "Profile.Ratelimiter", group: "profile", alts: []c14rAlt{
		pAlt("global", func(s *c14rProf) { s.RLOn = false }),
		pAlt("own-without-subnets-rps-0", func(s *c14rProf) { s.RLOn, s.RLSubnets, s.RPS = true, nil, 0 }),
	}},
	{name: "Profile.Ratelimiter.ClientSubnets", group: "profile", alts: []c14rAlt{
		pAlt("nil", func(s *c14rProf) { s.RLSubnets = nil }),
		pAlt("two", func(s *c14rProf) { s.RLSubnets = c14rNets("198.51.100.0/24", "2001:db8:5::/48") }),
	}},
	{name: "Profile.Ratelimiter.RPS", group: "profile", alts: []c14rAlt{
		pAlt("0", func(s *c14rProf) { s.RPS = 0 }),
		pAlt("1", func(s *c14rProf) { s.RPS = 1 }),
		pAlt("200", func(s *c14rProf) { s.RPS = 200 }),
	}},
	{name: "Profile.FilterConfig.Custom.ID", group: "profile", alts: []c14rAlt{
		pAlt("empty", func(s *c14rProf) { s.CustomID = "" }),
		pAlt("other", func(s *c14rProf) { s.CustomID = "custom-id-ю" }),
	}},
	{name: "Profile.FilterConfig.Custom.UpdateTime", group: "profile", alts: []c14rAlt{
		pAlt("zero", func(s *c14rProf) { s.CustomTime = nil }),
		pAlt("other-zone", func(s *c14rProf) {
			s.CustomTime = func() time.Time {
				return time.Date(2023, 1, 2, 3, 4, 5, 0, time.FixedZone("X", 2*3600))
			}
		}),
		pAlt("before-1970", func(s *c14rProf) {
			s.CustomTime = func() time.Time { return time.Date(1969, 12, 31, 23, 59, 59, 500000000, time.UTC) }
		}),
		pAlt("year-9999", func(s *c14rProf) {
			s.CustomTime = func() time.Time { return time.Date(9999, 12, 31, 23, 59, 59, 999999999, time.UTC) }
		}),
		// A clock reading with a monotonic part, as the backend conversion
		// passes it; under the virtual clock it is the same in every run.
		pAlt("clock-reading", func(s *c14rProf) { s.CustomTime = time.Now }),
	}},
	{name: "Profile.FilterConfig.Custom.Rules", group: "profile", alts: []c14rAlt{
		pAlt("nil", func(s *c14rProf) { s.CustomRules = nil }),
		pAlt("empty", func(s *c14rProf) { s.CustomRules = []filter.RuleText{} }),
		pAlt("one", func(s *c14rProf) { s.CustomRules = []filter.RuleText{"||custom-one.test^"} }),
	}},
	{name: "Profile.FilterConfig.Custom.Enabled", group: "profile", alts: []c14rAlt{
		pAlt("false", func(s *c14rProf) { s.CustomOn = false }),
	}},
	pBool("Profile.FilterConfig.Parental.Enabled", func(s *c14rProf) *bool { return &s.ParOn }),
	pBool("Profile.FilterConfig.Parental.AdultBlockingEnabled", func(s *c14rProf) *bool { return &s.Adult }),
	pBool("Profile.FilterConfig.Parental.SafeSearchGeneralEnabled", func(s *c14rProf) *bool { return &s.SSGeneral }),
	pBool("Profile.FilterConfig.Parental.SafeSearchYouTubeEnabled", func(s *c14rProf) *bool { return &s.SSYouTube }),
	{name: "Profile.FilterConfig.Parental.BlockedServices", group: "profile", alts: []c14rAlt{
		pAlt("nil", func(s *c14rProf) { s.Services = nil }),
		pAlt("one", func(s *c14rProf) { s.Services = []filter.BlockedServiceID{"svc_two"} }),
	}},
	{name: "Profile.FilterConfig.Parental.PauseSchedule", group: "profile", alts: []c14rAlt{
		pAlt("nil", func(s *c14rProf) { s.SchedOn = false }),
	}},
	{name: "Profile.FilterConfig.Parental.PauseSchedule.Week", group: "profile", alts: []c14rAlt{
		pAlt("all-days-nil", func(s *c14rProf) { s.Week = [7]*filter.DayInterval{} }),
		pAlt("all-days-set", func(s *c14rProf) {
			s.Week = [7]*filter.DayInterval{
				c14rDay(0, 1440), c14rDay(1, 2), c14rDay(2, 3), c14rDay(3, 4), c14rDay(4, 5), c14rDay(5, 6), c14rDay(1439, 1440),
			}
		}),
		pAlt("sunday-only", func(s *c14rProf) { s.Week = [7]*filter.DayInterval{c14rDay(0, 1439)} }),
		pAlt("saturday-only", func(s *c14rProf) {
			s.Week = [7]*filter.DayInterval{nil, nil, nil, nil, nil, nil, c14rDay(1439, 1440)}
		}),
		pAlt("zero-intervals", func(s *c14rProf) {
			s.Week = [7]*filter.DayInterval{c14rDay(0, 0), c14rDay(0, 0), nil, c14rDay(720, 720), c14rDay(0, 1440), nil, nil}
		}),
	}},
	{name: "Profile.FilterConfig.Parental.PauseSchedule.TimeZone", group: "profile", alts: []c14rAlt{
		pAlt("UTC", func(s *c14rProf) { s.TZ = "UTC" }),
		pAlt("America/New_York", func(s *c14rProf) { s.TZ = "America/New_York" }),
		pAlt("Asia/Kolkata", func(s *c14rProf) { s.TZ = "Asia/Kolkata" }),
	}},
	{name: "Profile.FilterConfig.RuleList.IDs", group: "profile", alts: []c14rAlt{
		pAlt("nil", func(s *c14rProf) { s.RuleListIDs = nil }),
		pAlt("empty", func(s *c14rProf) { s.RuleListIDs = []filter.ID{} }),
		pAlt("one", func(s *c14rProf) { s.RuleListIDs = []filter.ID{"list_two"} }),
	}},
	pBool("Profile.FilterConfig.RuleList.Enabled", func(s *c14rProf) *bool { return &s.RuleListOn }),
	pBool("Profile.FilterConfig.SafeBrowsing.Enabled", func(s *c14rProf) *bool { return &s.SBOn }),
	pBool("Profile.FilterConfig.SafeBrowsing.DangerousDomainsEnabled", func(s *c14rProf) *bool { return &s.SBDanger }),
	pBool("Profile.FilterConfig.SafeBrowsing.NewlyRegisteredDomainsEnabled", func(s *c14rProf) *bool { return &s.SBNewly }),
	{name: "Profile.FilteredResponseTTL", group: "profile", alts: []c14rAlt{
		pAlt("0", func(s *c14rProf) { s.TTL = 0 }),
		pAlt("1.5s", func(s *c14rProf) { s.TTL = 1500 * time.Millisecond }),
		pAlt("10-years", func(s *c14rProf) { s.TTL = 87600 * time.Hour }),
		pAlt("max", func(s *c14rProf) { s.TTL = time.Duration(math.MaxInt64) }),
	}},
	pBool("Profile.AutoDevicesEnabled", func(s *c14rProf) *bool { return &s.Auto }),
	pBool("Profile.BlockChromePrefetch", func(s *c14rProf) *bool { return &s.Chrome }),
	pBool("Profile.BlockFirefoxCanary", func(s *c14rProf) *bool { return &s.Firefox }),
	pBool("Profile.BlockPrivateRelay", func(s *c14rProf) *bool { return &s.Relay }),
	pBool("Profile.Deleted", func(s *c14rProf) *bool { return &s.Deleted }),
	pBool("Profile.FilteringEnabled", func(s *c14rProf) *bool { return &s.FiltOn }),
	pBool("Profile.IPLogEnabled", func(s *c14rProf) *bool { return &s.IPLog }),
	pBool("Profile.QueryLogEnabled", func(s *c14rProf) *bool { return &s.QLog }),

	{name: "Device.Record", group: "device", alts: []c14rAlt{
		c14rOnlyDev("all-default", nil),
		c14rOnlyDev("only-auth", func(dst, base *c14rDevice) { dst.AuthOn, dst.DoHOnly, dst.Bcrypt = true, true, true }),
		c14rOnlyDev("only-linked-ip", func(dst, base *c14rDevice) { dst.Linked = base.Linked }),
		c14rOnlyDev("only-dedicated-ips", func(dst, base *c14rDevice) { dst.Dedicated = base.Dedicated }),
		c14rOnlyDev("only-human-id", func(dst, base *c14rDevice) { dst.Human = base.Human }),
		c14rOnlyDev("only-name", func(dst, base *c14rDevice) { dst.Name = base.Name }),
		c14rOnlyDev("only-filtering-enabled", func(dst, base *c14rDevice) { dst.FiltOn = true }),
	}},
	// Auth is "never nil" (agd.Device), and when Enabled is false the other
	// parameters do not work (agd.AuthSettings), so the alternatives are the
	// disabled record and the four enabled combinations.
	{name: "Device.Auth", group: "device", alts: []c14rAlt{
		dAlt("disabled", func(s *c14rDevice) { s.AuthOn = false }),
		dAlt("enabled-any-proto-bcrypt", func(s *c14rDevice) { s.DoHOnly = false }),
		dAlt("enabled-doh-only-allow-all", func(s *c14rDevice) { s.Bcrypt = false }),
		dAlt("enabled-any-proto-allow-all", func(s *c14rDevice) { s.DoHOnly, s.Bcrypt = false, false }),
	}},
	{name: "Device.LinkedIP", group: "device", alts: []c14rAlt{
		dAlt("none", func(s *c14rDevice) { s.Linked = netip.Addr{} }),
		dAlt("v6", func(s *c14rDevice) { s.Linked = netip.MustParseAddr("2001:db8::10") }),
		dAlt("v4-mapped-v6", func(s *c14rDevice) { s.Linked = netip.MustParseAddr("::ffff:192.0.2.10") }),
	}},
	{name: "Device.DedicatedIPs", group: "device", alts: []c14rAlt{
		dAlt("nil", func(s *c14rDevice) { s.Dedicated = nil }),
		dAlt("empty", func(s *c14rDevice) { s.Dedicated = []netip.Addr{} }),
		dAlt("two", func(s *c14rDevice) { s.Dedicated = c14rAddrs("198.51.100.21", "2001:db8::21") }),
	}},
	{name: "Device.HumanIDLower", group: "device", alts: []c14rAlt{
		dAlt("none", func(s *c14rDevice) { s.Human = "" }),
		dAlt("other", func(s *c14rDevice) { s.Human = "my-dev-1-renamed" }),
	}},
	{name: "Device.Name", group: "device", alts: []c14rAlt{
		dAlt("empty", func(s *c14rDevice) { s.Name = "" }),
		dAlt("unicode", func(s *c14rDevice) { s.Name = "Ноутбук 📱 名前 \"q\"\n\x00" }),
		dAlt("128-runes", func(s *c14rDevice) { s.Name = agd.DeviceName(strings.Repeat("я", 128)) }),
	}},
	{name: "Device.FilteringEnabled", group: "device", alts: []c14rAlt{
		dAlt("false", func(s *c14rDevice) { s.FiltOn = false }),
	}},
}

// c14rDev is one deviation from the base world.
type c14rDev struct {
	F string `json:"f"`
	V string `json:"v"`
}

// c14rCase is a set of deviations on distinct fields.
type c14rCase struct {
	Devs []c14rDev `json:"devs"`
}

func (c c14rCase) String() string {
	parts := []string{}
	for _, d := range c.Devs {
		parts = append(parts, d.F+"="+d.V)
	}
	if len(parts) == 0 {
		return "base"
	}

	return strings.Join(parts, " & ")
}

// ---- Worlds ------------------------------------------------------------------

type c14rShapeProf struct {
	id   agd.ProfileID
	devs []agd.DeviceID
}

// c14rParseShape parses "p1:d1,d2;p2:d4;p3:".
func c14rParseShape(s string) (out []c14rShapeProf) {
	for _, part := range strings.Split(s, ";") {
		id, devs, ok := strings.Cut(part, ":")
		if !ok {
			vrt.Fatalf("bad shape %q", s)
		}
		sp := c14rShapeProf{id: agd.ProfileID(id)}
		if devs != "" {
			for _, d := range strings.Split(devs, ",") {
				sp.devs = append(sp.devs, agd.DeviceID(d))
			}
		}
		out = append(out, sp)
	}

	return out
}

// c14rWorld is a complete database content.
type c14rWorld struct {
	shape string
	p1    *c14rProf
	d1    *c14rDevice
}

func c14rFindAlt(d c14rDev) (f *c14rField, a *c14rAlt) {
	for i := range c14rFields {
		if c14rFields[i].name != d.F {
			continue
		}
		for j := range c14rFields[i].alts {
			if c14rFields[i].alts[j].name == d.V {
				return &c14rFields[i], &c14rFields[i].alts[j]
			}
		}
	}
	vrt.Fatalf("unknown deviation %+v", d)

	return nil, nil
}

func c14rFieldIndex(name string) int {
	for i := range c14rFields {
		if c14rFields[i].name == name {
			return i
		}
	}
	vrt.Fatalf("unknown field %q", name)

	return -1
}

func c14rBuildWorld(c c14rCase) (w *c14rWorld) {
	w = &c14rWorld{shape: c14rBaseShape, p1: c14rBaseProf(), d1: c14rBaseDev()}
	// Coarser fields come first in c14rFields; finer deviations go on top.
	devs := slices.Clone(c.Devs)
	sort.SliceStable(devs, func(i, j int) bool { return c14rFieldIndex(devs[i].F) < c14rFieldIndex(devs[j].F) })
	for _, d := range devs {
		_, a := c14rFindAlt(d)
		switch {
		case a.p != nil:
			a.p(w.p1)
		case a.d != nil:
			a.d(w.d1)
		default:
			w.shape = a.shape
		}
	}

	return w
}

// response builds the storage response of a full synchronisation from fresh
// objects.
func (w *c14rWorld) response() (resp *StorageProfilesResponse) {
	resp = &StorageProfilesResponse{SyncTime: time.Date(2024, 6, 1, 12, 0, 0, 0, time.UTC)}
	for _, sp := range c14rParseShape(w.shape) {
		var ps *c14rProf
		switch sp.id {
		case "p1":
			ps = w.p1
		case "p2":
			ps = c14rOtherProf()
		default:
			ps = c14rPlainProf(sp.id)
		}
		resp.Profiles = append(resp.Profiles, ps.build(sp.devs))
		for _, id := range sp.devs {
			ds := w.d1
			if id != "d1" {
				ds = c14rFixedDev(id)
			}
			resp.Devices = append(resp.Devices, ds.build())
		}
	}

	return resp
}

// ---- Key universe --------------------------------------------------------------

var (
	c14rUniDevIDs = []agd.DeviceID{"d1", "d2", "d3", "d4", "d5", "dx"}
	c14rUniIPs    = c14rAddrs(
		"192.0.2.10", "2001:db8::10", "::ffff:192.0.2.10", "198.51.100.20", "198.51.100.21", "2001:db8::21",
		"2001:db8::30", "198.51.100.30", "2001:db8::31", "192.0.2.50", "203.0.113.9", "2001:db8::dead",
	)
	c14rUniHumans   = []agd.HumanIDLower{"my-dev-1", "my-dev-1-renamed", "other-h", "absent-h"}
	c14rUniProfiles = []agd.ProfileID{"p1", "p2", "p3", "px"}
)

// ---- Observation ---------------------------------------------------------------

// c14rObs is everything the statement makes observable of a database.
type c14rObs struct {
	// lookups maps "<kind>/<key>" to the answer.
	lookups map[string]string

	// settings maps "<profile|device>[<id>]/<Field>" to the canonical value.
	settings map[string]string

	found int
}

func c14rErrKind(err error) string {
	switch {
	case errors.Is(err, ErrDeviceNotFound):
		return "not-found(device)"
	case errors.Is(err, ErrProfileNotFound):
		return "not-found(profile)"
	default:
		return "error(" + err.Error() + ")"
	}
}

func (o *c14rObs) lookup(kind, key string, f func() (*agd.Profile, *agd.Device, error)) {
	var p *agd.Profile
	var d *agd.Device
	var err error
	if pn := vrt.Catch(func() { p, d, err = f() }); pn != "" {
		o.lookups[kind+"/"+key] = "panic(" + pn + ")"

		return
	}
	switch {
	case err != nil:
		o.lookups[kind+"/"+key] = c14rErrKind(err)
	case p == nil || d == nil:
		o.lookups[kind+"/"+key] = "nil-without-error"
	default:
		o.found++
		o.lookups[kind+"/"+key] = string(p.ID) + "/" + string(d.ID)
	}
}

// c14rObserve runs every lookup of the key universe and dumps every profile
// and device record of db.
func c14rObserve(db *Default) (o *c14rObs) {
	ctx := context.Background()
	o = &c14rObs{lookups: map[string]string{}, settings: map[string]string{}}
	for _, id := range c14rUniDevIDs {
		o.lookup("device-id", string(id), func() (*agd.Profile, *agd.Device, error) { return db.ProfileByDeviceID(ctx, id) })
	}
	for _, ip := range c14rUniIPs {
		o.lookup("linked-ip", ip.String(), func() (*agd.Profile, *agd.Device, error) { return db.ProfileByLinkedIP(ctx, ip) })
		o.lookup("dedicated-ip", ip.String(), func() (*agd.Profile, *agd.Device, error) { return db.ProfileByDedicatedIP(ctx, ip) })
	}
	for _, pid := range c14rUniProfiles {
		for _, h := range c14rUniHumans {
			o.lookup("human-id", string(pid)+":"+string(h), func() (*agd.Profile, *agd.Device, error) {
				return db.ProfileByHumanID(ctx, pid, h)
			})
		}
	}
	db.mapsMu.RLock()
	defer db.mapsMu.RUnlock()
	for id, p := range db.profiles {
		c14rDumpProfile(o.settings, "profile["+string(id)+"]/", p)
	}
	for id, d := range db.devices {
		c14rDumpDevice(o.settings, "device["+string(id)+"]/", d)
	}

	return o
}

func c14rJoin[T any](xs []T, sorted bool) string {
	ss := make([]string, 0, len(xs))
	for _, x := range xs {
		ss = append(ss, fmt.Sprintf("%q", fmt.Sprint(x)))
	}
	if sorted {
		sort.Strings(ss)
	}

	return "[" + strings.Join(ss, " ") + "]"
}

// Probes of the access settings: (address, location, question) requests as
// ratelimitmw passes them to access.Profile.IsBlocked.
type c14rAccessProbe struct {
	name string
	req  *dns.Msg
	addr netip.AddrPort
	loc  *geoip.Location
}

var c14rAccessProbes = func() (out []c14rAccessProbe) {
	addrs := []string{"10.1.2.3", "10.2.3.4", "2001:db8:1::1", "2001:db8:2::1", "192.0.2.1"}
	asns := []geoip.ASN{0, 64500, 64501, 64510, 64511, 4294967295, 64999}
	type q struct {
		name string
		qt   uint16
	}
	qs := []q{
		{"free.test.", dns.TypeA}, {"blocked-one.test.", dns.TypeA}, {"sub.Blocked-One.test.", dns.TypeAAAA},
		{"blocked-two.test.", dns.TypeA}, {"blocked-two.test.", dns.TypeAAAA},
	}
	mk := func(a string, asn geoip.ASN, noLoc bool, qq q) {
		m := &dns.Msg{}
		m.SetQuestion(qq.name, qq.qt)
		var loc *geoip.Location
		if !noLoc {
			loc = &geoip.Location{ASN: asn}
		}
		out = append(out, c14rAccessProbe{
			name: fmt.Sprintf("%s|asn=%d,%t|%s/%d", a, asn, noLoc, qq.name, qq.qt),
			req:  m, addr: netip.AddrPortFrom(netip.MustParseAddr(a), 5353), loc: loc,
		})
	}
	// Addresses x locations with a name nobody blocks.
	for _, a := range addrs {
		mk(a, 0, true, qs[0])
		for _, asn := range asns {
			mk(a, asn, false, qs[0])
		}
	}
	// Names x question types from an address and a location nobody blocks.
	for _, qq := range qs[1:] {
		mk("192.0.2.1", 64999, false, qq)
		mk("10.1.2.3", 64500, false, qq)
	}

	return out
}()

func c14rAccessBehaviour(a access.Profile) string {
	var sb strings.Builder
	for _, pr := range c14rAccessProbes {
		var blocked bool
		if pn := vrt.Catch(func() { blocked = a.IsBlocked(pr.req, pr.addr, pr.loc) }); pn != "" {
			return "panic(" + pn + ")"
		}
		if blocked {
			sb.WriteByte('B')
		} else {
			sb.WriteByte('.')
		}
	}

	return sb.String()
}

var (
	c14rRLReq = func() *dns.Msg {
		m := &dns.Msg{}
		m.SetQuestion("ratelimit.test.", dns.TypeA)

		return m
	}()
	// c14rRLResp is 2.x response-size estimates long.
	c14rRLResp = func() *dns.Msg {
		m := &dns.Msg{}
		m.SetReply(c14rRLReq)
		for i := 0; len(m.Answer) < 64 && m.Len() < 250; i++ {
			m.Answer = append(m.Answer, &dns.A{
				Hdr: dns.RR_Header{Name: "ratelimit.test.", Rrtype: dns.TypeA, Class: dns.ClassINET, Ttl: 10},
				A:   []byte{192, 0, 2, byte(i)},
			})
		}
		if n := m.Len(); n < 200 || n >= 300 {
			panic(fmt.Sprintf("ratelimit probe response is %d bytes", n))
		}

		return m
	}()
	c14rRLIPs = c14rAddrs("198.51.100.7", "203.0.113.7", "2001:db8:5::7")
)

// c14rRatelimitBehaviour probes a rate limiter: the responses counted for a
// long answer, then a burst from inside the first subnet, a request from
// outside and a request from the second subnet.  It changes the limiter's
// counters, so it is called once per object.
func c14rRatelimitBehaviour(rl agd.Ratelimiter) (s string) {
	ctx := context.Background()
	var sb strings.Builder
	pn := vrt.Catch(func() {
		rl.CountResponses(ctx, c14rRLResp, c14rRLIPs[0])
		for _, ip := range []netip.Addr{
			c14rRLIPs[0], c14rRLIPs[0], c14rRLIPs[0], c14rRLIPs[0], c14rRLIPs[0], c14rRLIPs[1], c14rRLIPs[2],
		} {
			fmt.Fprintf(&sb, "%d", rl.Check(ctx, c14rRLReq, ip))
		}
	})
	if pn != "" {
		return "panic(" + pn + ")"
	}

	return sb.String()
}

// c14rSchedInstants are the probe instants of pause schedules: the boundary
// minutes of every day of a week in every time zone of the alphabet (the week
// of a daylight-saving change in Brussels).
var c14rSchedInstants = func() (out []time.Time) {
	for _, tz := range []string{"UTC", "Europe/Brussels", "America/New_York", "Asia/Kolkata"} {
		loc := &c14rLoc(tz).Location
		for day := 0; day < 7; day++ {
			for _, min := range []int{0, 1, 2, 600, 719, 720, 1438, 1439} {
				out = append(out, time.Date(2024, 3, 31+day, 0, min, 0, 0, loc))
				out = append(out, time.Date(2024, 3, 31+day, 0, min, 59, 999999999, loc))
			}
		}
	}

	return out
}()

func c14rScheduleBehaviour(s *filter.ConfigSchedule) string {
	var sb strings.Builder
	pn := vrt.Catch(func() {
		for _, t := range c14rSchedInstants {
			if s.Contains(t) {
				sb.WriteByte('P')
			} else {
				sb.WriteByte('.')
			}
		}
	})
	if pn != "" {
		return "panic(" + pn + ")"
	}
	h := sha256.Sum256([]byte(sb.String()))

	return fmt.Sprintf("%d-paused-of-%d/%s", strings.Count(sb.String(), "P"), sb.Len(), hex.EncodeToString(h[:6]))
}

// c14rAuthMemo memoises Authenticate results of bcrypt hashes by hash bytes
// (Authenticate is a function of these bytes and the password only).
var c14rAuthMemo sync.Map

func c14rAuthBehaviour(a agdpasswd.Authenticator) (s string) {
	ctx := context.Background()
	if a == nil {
		// What devicefinder does with it.
		pn := vrt.Catch(func() { _ = a.Authenticate(ctx, []byte(c14rPassword)) })

		return "nil-authenticator:panic(" + pn + ")"
	}
	memoKey := ""
	if b, ok := a.(*agdpasswd.PasswordHashBcrypt); ok && b != nil {
		memoKey = string(b.PasswordHash())
		if v, found := c14rAuthMemo.Load(memoKey); found {
			return v.(string)
		}
	}
	var right, wrong bool
	pn := vrt.Catch(func() {
		right = a.Authenticate(ctx, []byte(c14rPassword))
		wrong = a.Authenticate(ctx, []byte("wrong-password"))
	})
	s = fmt.Sprintf("right-password=%t wrong-password=%t", right, wrong)
	if pn != "" {
		s = "panic(" + pn + ")"
	}
	if memoKey != "" {
		c14rAuthMemo.Store(memoKey, s)
	}

	return s
}

func c14rDumpProfile(out map[string]string, pre string, p *agd.Profile) {
	if p == nil {
		out[pre+"Profile"] = "nil"

		return
	}
	out[pre+"Profile.ID"] = string(p.ID)
	out[pre+"Profile.DeviceIDs"] = c14rJoin(p.DeviceIDs, true)
	switch m := p.BlockingMode.(type) {
	case *dnsmsg.BlockingModeCustomIP:
		out[pre+"Profile.BlockingMode"] = "custom-ip v4=" + c14rJoin(m.IPv4, false) + " v6=" + c14rJoin(m.IPv6, false)
	default:
		out[pre+"Profile.BlockingMode"] = fmt.Sprintf("%T", m)
	}
	if p.Access == nil {
		out[pre+"Profile.Access"] = "nil"
	} else {
		// The concrete type is not compared: an EmptyProfile and a
		// DefaultProfile without lists behave alike.
		conf := p.Access.Config()
		if conf == nil {
			conf = &access.ProfileConfig{}
		}
		out[pre+"Profile.Access.AllowedNets"] = c14rJoin(conf.AllowedNets, true)
		out[pre+"Profile.Access.BlockedNets"] = c14rJoin(conf.BlockedNets, true)
		out[pre+"Profile.Access.AllowedASN"] = c14rJoin(conf.AllowedASN, true)
		out[pre+"Profile.Access.BlockedASN"] = c14rJoin(conf.BlockedASN, true)
		out[pre+"Profile.Access.BlocklistDomainRules"] = c14rJoin(conf.BlocklistDomainRules, false)
		out[pre+"Profile.Access.IsBlocked"] = c14rAccessBehaviour(p.Access)
	}
	if p.Ratelimiter == nil {
		out[pre+"Profile.Ratelimiter"] = "nil"
	} else {
		conf := p.Ratelimiter.Config()
		if conf == nil {
			conf = &agd.RatelimitConfig{}
		}
		out[pre+"Profile.Ratelimiter.Enabled"] = fmt.Sprint(conf.Enabled)
		if conf.Enabled {
			out[pre+"Profile.Ratelimiter.ClientSubnets"] = c14rJoin(conf.ClientSubnets, true)
			out[pre+"Profile.Ratelimiter.RPS"] = fmt.Sprint(conf.RPS)
		}
		out[pre+"Profile.Ratelimiter.Check"] = c14rRatelimitBehaviour(p.Ratelimiter)
	}
	fc := p.FilterConfig
	if fc == nil || fc.Custom == nil || fc.Parental == nil || fc.RuleList == nil || fc.SafeBrowsing == nil {
		out[pre+"Profile.FilterConfig"] = fmt.Sprintf("incomplete %+v", fc)
	} else {
		cu := fc.Custom
		out[pre+"Profile.FilterConfig.Custom.ID"] = cu.ID
		out[pre+"Profile.FilterConfig.Custom.UpdateTime"] = cu.UpdateTime.UTC().Format(time.RFC3339Nano)
		out[pre+"Profile.FilterConfig.Custom.Rules"] = c14rJoin(cu.Rules, false)
		out[pre+"Profile.FilterConfig.Custom.Enabled"] = fmt.Sprint(cu.Enabled)
		pa := fc.Parental
		out[pre+"Profile.FilterConfig.Parental.Enabled"] = fmt.Sprint(pa.Enabled)
		out[pre+"Profile.FilterConfig.Parental.AdultBlockingEnabled"] = fmt.Sprint(pa.AdultBlockingEnabled)
		out[pre+"Profile.FilterConfig.Parental.SafeSearchGeneralEnabled"] = fmt.Sprint(pa.SafeSearchGeneralEnabled)
		out[pre+"Profile.FilterConfig.Parental.SafeSearchYouTubeEnabled"] = fmt.Sprint(pa.SafeSearchYouTubeEnabled)
		out[pre+"Profile.FilterConfig.Parental.BlockedServices"] = c14rJoin(pa.BlockedServices, true)
		if s := pa.PauseSchedule; s == nil {
			out[pre+"Profile.FilterConfig.Parental.PauseSchedule"] = "nil"
		} else if s.Week == nil || s.TimeZone == nil {
			out[pre+"Profile.FilterConfig.Parental.PauseSchedule"] = fmt.Sprintf("incomplete %+v", s)
		} else {
			out[pre+"Profile.FilterConfig.Parental.PauseSchedule"] = "set"
			days := []string{}
			for i, d := range s.Week {
				// A nil day and a zero interval both mean "no pause".
				v := "off"
				if d != nil && *d != (filter.DayInterval{}) {
					v = fmt.Sprintf("%d-%d", d.Start, d.End)
				}
				days = append(days, time.Weekday(i).String()[:3]+"="+v)
			}
			out[pre+"Profile.FilterConfig.Parental.PauseSchedule.Week"] = strings.Join(days, " ")
			out[pre+"Profile.FilterConfig.Parental.PauseSchedule.TimeZone"] = s.TimeZone.String()
			out[pre+"Profile.FilterConfig.Parental.PauseSchedule.Contains"] = c14rScheduleBehaviour(s)
		}
		out[pre+"Profile.FilterConfig.RuleList.IDs"] = c14rJoin(fc.RuleList.IDs, true)
		out[pre+"Profile.FilterConfig.RuleList.Enabled"] = fmt.Sprint(fc.RuleList.Enabled)
		sb := fc.SafeBrowsing
		out[pre+"Profile.FilterConfig.SafeBrowsing.Enabled"] = fmt.Sprint(sb.Enabled)
		out[pre+"Profile.FilterConfig.SafeBrowsing.DangerousDomainsEnabled"] = fmt.Sprint(sb.DangerousDomainsEnabled)
		out[pre+"Profile.FilterConfig.SafeBrowsing.NewlyRegisteredDomainsEnabled"] = fmt.Sprint(sb.NewlyRegisteredDomainsEnabled)
	}
	out[pre+"Profile.FilteredResponseTTL"] = p.FilteredResponseTTL.String()
	out[pre+"Profile.AutoDevicesEnabled"] = fmt.Sprint(p.AutoDevicesEnabled)
	out[pre+"Profile.BlockChromePrefetch"] = fmt.Sprint(p.BlockChromePrefetch)
	out[pre+"Profile.BlockFirefoxCanary"] = fmt.Sprint(p.BlockFirefoxCanary)
	out[pre+"Profile.BlockPrivateRelay"] = fmt.Sprint(p.BlockPrivateRelay)
	out[pre+"Profile.Deleted"] = fmt.Sprint(p.Deleted)
	out[pre+"Profile.FilteringEnabled"] = fmt.Sprint(p.FilteringEnabled)
	out[pre+"Profile.IPLogEnabled"] = fmt.Sprint(p.IPLogEnabled)
	out[pre+"Profile.QueryLogEnabled"] = fmt.Sprint(p.QueryLogEnabled)
}

func c14rDumpDevice(out map[string]string, pre string, d *agd.Device) {
	if d == nil {
		out[pre+"Device"] = "nil"

		return
	}
	out[pre+"Device.ID"] = string(d.ID)
	out[pre+"Device.LinkedIP"] = d.LinkedIP.String()
	out[pre+"Device.Name"] = fmt.Sprintf("%q", string(d.Name))
	out[pre+"Device.HumanIDLower"] = string(d.HumanIDLower)
	out[pre+"Device.DedicatedIPs"] = c14rJoin(d.DedicatedIPs, true)
	out[pre+"Device.FilteringEnabled"] = fmt.Sprint(d.FilteringEnabled)
	switch a := d.Auth; {
	case a == nil:
		out[pre+"Device.Auth"] = "nil"
	case !a.Enabled:
		// "Enabled ... must be true in order for all parameters to work."
		out[pre+"Device.Auth.Enabled"] = "false"
	default:
		out[pre+"Device.Auth.Enabled"] = "true"
		out[pre+"Device.Auth.DoHAuthOnly"] = fmt.Sprint(a.DoHAuthOnly)
		out[pre+"Device.Auth.PasswordHash"] = c14rAuthBehaviour(a.PasswordHash)
	}
}

// c14rCompare compares the observation of the restarted database with that
// of the database that wrote the cache.
func c14rCompare(c fmt.Stringer, before, after *c14rObs) (fs []vrt.Finding) {
	seen := map[string]bool{}
	add := func(key, format string, args ...any) {
		if seen[key] {
			return
		}
		seen[key] = true
		fs = append(fs, vrt.Finding{Key: key, Detail: fmt.Sprintf("case %s: ", c) + fmt.Sprintf(format, args...)})
	}
	keys := make([]string, 0, len(before.lookups))
	for k := range before.lookups {
		keys = append(keys, k)
	}
	sort.Strings(keys)
	for _, k := range keys {
		if b, a := before.lookups[k], after.lookups[k]; a != b {
			kind, key, _ := strings.Cut(k, "/")
			if strings.HasPrefix(a, "not-found(") && strings.HasPrefix(b, "not-found(") {
				// Found / not found agrees, but the device finder treats the
				// two errors differently (it creates automatic devices only
				// after "device not found").
				add("restart/lookup-not-found-kind-differs/"+kind,
					"lookup %s of %s answered %s when the cache was written, %s after the restart", kind, key, b, a)

				continue
			}
			add("restart/lookup-differs/"+kind, "lookup %s of %s answered %s when the cache was written, %s after the restart",
				kind, key, b, a)
		}
	}
	all := map[string]bool{}
	for k := range before.settings {
		all[k] = true
	}
	for k := range after.settings {
		all[k] = true
	}
	keys = keys[:0]
	for k := range all {
		keys = append(keys, k)
	}
	sort.Strings(keys)
	for _, k := range keys {
		b, bok := before.settings[k]
		a, aok := after.settings[k]
		if bok && aok && a == b {
			continue
		}
		rec, field, _ := strings.Cut(k, "/")
		_, recBefore := before.settings[rec+"/"+strings.SplitN(field, ".", 2)[0]+".ID"]
		_, recAfter := after.settings[rec+"/"+strings.SplitN(field, ".", 2)[0]+".ID"]
		kind := strings.ToLower(strings.SplitN(field, ".", 2)[0])
		switch {
		case recBefore && !recAfter:
			add("restart/"+kind+"-lost", "%s was in the database when the cache was written and is gone after the restart", rec)
		case !recBefore && recAfter:
			add("restart/"+kind+"-appeared", "%s is in the restarted database only", rec)
		default:
			if !bok {
				b = "(absent)"
			}
			if !aok {
				a = "(absent)"
			}
			add("restart/field-lost/"+field, "%s %s was %s when the cache was written and is %s after the restart", rec, field, b, a)
		}
	}

	return fs
}

func (o *c14rObs) digest() string {
	var parts []string
	for k, v := range o.lookups {
		parts = append(parts, k+"="+v)
	}
	for k, v := range o.settings {
		parts = append(parts, k+"="+v)
	}
	sort.Strings(parts)

	return strings.Join(parts, "\n")
}

// ---- Environment ---------------------------------------------------------------

// c14rLog records the warnings and errors logged by the database.
type c14rLog struct {
	mu   *sync.Mutex
	msgs *[]string
}

func c14rNewLog() *c14rLog { return &c14rLog{mu: &sync.Mutex{}, msgs: &[]string{}} }

func (l *c14rLog) Enabled(_ context.Context, lvl slog.Level) bool { return lvl >= slog.LevelWarn }
func (l *c14rLog) WithAttrs(_ []slog.Attr) slog.Handler           { return l }
func (l *c14rLog) WithGroup(_ string) slog.Handler                { return l }
func (l *c14rLog) Handle(_ context.Context, rec slog.Record) error {
	msg := rec.Message
	rec.Attrs(func(a slog.Attr) bool {
		msg += fmt.Sprintf(" %s=%v", a.Key, a.Value)

		return true
	})
	l.mu.Lock()
	*l.msgs = append(*l.msgs, msg)
	l.mu.Unlock()

	return nil
}

func (l *c14rLog) take() (msgs []string) {
	l.mu.Lock()
	defer l.mu.Unlock()
	msgs, *l.msgs = *l.msgs, nil

	return msgs
}

// c14rStorage is the scripted storage: it serves its responses in order and
// fails when they are used up.
type c14rStorage struct {
	resps []*StorageProfilesResponse
	calls int

	// partial counts the requests for an incremental synchronisation.
	partial int
}

func (s *c14rStorage) CreateAutoDevice(context.Context, *StorageCreateAutoDeviceRequest) (*StorageCreateAutoDeviceResponse, error) {
	s.calls++

	return nil, errors.New("storage must not be needed")
}

func (s *c14rStorage) Profiles(_ context.Context, req *StorageProfilesRequest) (*StorageProfilesResponse, error) {
	s.calls++
	if !req.SyncTime.IsZero() {
		s.partial++
	}
	if len(s.resps) == 0 {
		return nil, errors.New("storage must not be needed")
	}
	resp := s.resps[0]
	s.resps = s.resps[1:]

	return resp, nil
}

type c14rErrColl struct{}

func (c14rErrColl) Collect(context.Context, error) {}

func c14rNewDB(path string, strg Storage, log *c14rLog) (db *Default) {
	db, err := New(&Config{
		Logger:               slog.New(log),
		Storage:              strg,
		ErrColl:              c14rErrColl{},
		Metrics:              EmptyMetrics{},
		CacheFilePath:        path,
		FullSyncIvl:          0,
		FullSyncRetryIvl:     0,
		ResponseSizeEstimate: c14rRespSzEst,
	})
	if err != nil {
		vrt.Fatalf("profiledb.New: %v", err)
	}

	return db
}

// c14rScratch creates a private scratch directory: under /dev/shm when that
// is writable (the cache is written through renameio, which fsyncs), else
// next to the shard file, else in t.TempDir().  TMPDIR is pointed into it so
// that renameio's temporary files stay out of /tmp.
func c14rScratch(t *testing.T, setTmp bool) (dir string) {
	roots := []string{os.Getenv("C14_SCRATCH"), "/dev/shm"}
	if out := os.Getenv("VERIF_OUT"); out != "" {
		roots = append(roots, filepath.Dir(out))
	}
	for _, root := range roots {
		if root == "" {
			continue
		}
		d, err := os.MkdirTemp(root, "c14-scratch-")
		if err == nil {
			dir = d

			break
		}
	}
	if dir == "" {
		dir = t.TempDir()
	}
	if setTmp {
		tmp := filepath.Join(dir, "tmp")
		if err := os.Mkdir(tmp, 0o700); err != nil {
			vrt.Fatalf("creating scratch tmp dir: %v", err)
		}
		if err := os.Setenv("TMPDIR", tmp); err != nil {
			vrt.Fatalf("setting TMPDIR: %v", err)
		}
	}

	return dir
}

// ---- The unit ------------------------------------------------------------------

// c14rRunCase executes one case against the real code.
func c14rRunCase(r *vrt.Run, dir string, c c14rCase) (fs []vrt.Finding) {
	return c14rRunSyncs(r, dir, c, []c14rCase{c})
}

// c14rSeqCase is a case of the part "restart-after-resyncs": one long-lived
// database performs the full synchronisations Syncs in order (each writes
// the cache through the same file-cache storage object), then a new database
// is opened on the cache file.
type c14rSeqCase struct {
	Syncs []c14rCase `json:"syncs"`
}

func (c c14rSeqCase) String() string {
	parts := []string{}
	for _, s := range c.Syncs {
		parts = append(parts, "["+s.String()+"]")
	}

	return "full syncs " + strings.Join(parts, " then ")
}

// c14rResyncWorlds are the contents between which the long-lived database
// of the part "restart-after-resyncs" moves: every world shape (whole
// profiles and devices appear and disappear, a profile loses all devices),
// every alternative of the device keys (linked IP, dedicated IPs, human id),
// an all-default profile and a deleted profile.
func c14rResyncWorlds() (out []c14rCase) {
	out = append(out, c14rCase{Devs: []c14rDev{}})
	for _, f := range c14rFields {
		switch f.name {
		case "World.Shape", "Device.LinkedIP", "Device.DedicatedIPs", "Device.HumanIDLower":
			for _, a := range f.alts {
				out = append(out, c14rCase{Devs: []c14rDev{{F: f.name, V: a.name}}})
			}
		}
	}
	out = append(out,
		c14rCase{Devs: []c14rDev{{F: "Profile.Record", V: "all-default"}}},
		c14rCase{Devs: []c14rDev{{F: "Device.Record", V: "all-default"}}},
		c14rCase{Devs: []c14rDev{{F: "Profile.Deleted", V: "flipped"}}},
		c14rCase{Devs: []c14rDev{{F: "World.Shape", V: "three-profiles-one-empty"}, {F: "Device.Record", V: "only-human-id"}}},
	)

	return out
}

// c14rRunSyncs lets one database synchronise (fully) the contents syncs in
// order, restarts a second database from the cache file and compares it with
// the first database, i.e. with the content of the last synchronisation.
func c14rRunSyncs(r *vrt.Run, dir string, c fmt.Stringer, syncs []c14rCase) (fs []vrt.Finding) {
	ctx := context.Background()
	path := filepath.Join(dir, "cache.pb")
	_ = os.Remove(path)
	defer os.Remove(path)

	log1 := c14rNewLog()
	strg1 := &c14rStorage{}
	for _, sc := range syncs {
		strg1.resps = append(strg1.resps, c14rBuildWorld(sc).response())
	}
	db1 := c14rNewDB(path, strg1, log1)
	for i := range syncs {
		var err error
		if pn := vrt.Catch(func() { err = db1.Refresh(ctx) }); pn != "" {
			r.Class("store:panic")

			return vrt.F("restart/store-panics", "case %s: full synchronisation %d panics while writing the cache: %s", c, i+1, pn)
		} else if err != nil {
			r.Class("store:error")

			return vrt.F("restart/store-fails", "case %s: full synchronisation %d fails: %v", c, i+1, err)
		}
	}
	if strg1.calls != len(syncs) || strg1.partial != 0 {
		vrt.Fatalf("case %s: %d storage requests, %d of them incremental; want %d full ones", c, strg1.calls, strg1.partial, len(syncs))
	}
	before := c14rObserve(db1)

	log2 := c14rNewLog()
	strg2 := &c14rStorage{}
	var db2 *Default
	if pn := vrt.Catch(func() { db2 = c14rNewDB(path, strg2, log2) }); pn != "" {
		r.Class("load:panic")

		return vrt.F("restart/load-panics", "case %s: opening the database on the written cache panics: %s", c, pn)
	}
	warns := log2.take()
	after := c14rObserve(db2)
	r.Trans(2 + len(syncs) + len(before.lookups) + len(after.lookups))

	r.Class(fmt.Sprintf("%d full syncs; written: %d profiles %d devices %d lookups found; restarted: %d profiles %d devices %d lookups found",
		len(syncs), len(db1.profiles), len(db1.devices), before.found, len(db2.profiles), len(db2.devices), after.found))
	r.State(after.digest())

	if strg2.calls > 0 {
		fs = append(fs, vrt.F("restart/storage-needed", "case %s: the restarted database called its storage %d times", c, strg2.calls)...)
	}
	if len(warns) > 0 {
		// Everything else follows from the cache not being loaded.
		return append(fs, vrt.F("restart/load-error", "case %s: opening the database on the cache it has just written logs: %s",
			c, strings.Join(warns, "; "))...)
	}

	if len(db1.devices) == 0 && len(db1.profiles) > 0 && len(db2.profiles) == 0 {
		// One signature for the rule "a cache without devices is empty".
		diff := c14rCompare(c, before, after)
		keys := []string{}
		for _, f := range diff {
			keys = append(keys, f.Key)
		}

		return append(fs, vrt.F("restart/database-without-devices-not-restored",
			"case %s: the cache was written by a database of %d profiles without devices; the restarted database holds no profile (%s), e.g. %s",
			c, len(db1.profiles), strings.Join(keys, ", "), diff[0].Detail)...)
	}

	return append(fs, c14rCompare(c, before, after)...)
}

// c14rEnumerate emits the base case and every set of at most k deviations on
// distinct fields, fewest deviations first.  With crossGroups false, sets of
// two or more deviations stay within one group (profile / device); the world
// shape combines with everything.
func c14rEnumerate(k int, crossGroups bool, emit func(c c14rCase)) {
	type fa struct{ f, a int }
	var rec func(start int, cur []fa)
	for size := 0; size <= k; size++ {
		rec = func(start int, cur []fa) {
			if len(cur) == size {
				c := c14rCase{Devs: []c14rDev{}}
				for _, x := range cur {
					c.Devs = append(c.Devs, c14rDev{F: c14rFields[x.f].name, V: c14rFields[x.f].alts[x.a].name})
				}
				emit(c)

				return
			}
			for f := start; f < len(c14rFields); f++ {
				if !crossGroups {
					ok := true
					for _, x := range cur {
						g1, g2 := c14rFields[x.f].group, c14rFields[f].group
						if g1 != g2 && g1 != "world" && g2 != "world" {
							ok = false
						}
					}
					if !ok {
						continue
					}
				}
				for a := range c14rFields[f].alts {
					rec(f+1, append(cur, fa{f, a}))
				}
			}
		}
		rec(0, nil)
	}
}

// c14rSelfCheck makes sure that the dump tells every alternative from the
// base value (a dump that cannot see a field proves nothing about it).
func c14rSelfCheck() {
	dump := func(c c14rCase) string {
		w := c14rBuildWorld(c)
		out := map[string]string{}
		c14rDumpProfile(out, "", w.p1.build([]agd.DeviceID{"d1"}))
		c14rDumpDevice(out, "", w.d1.build())
		o := &c14rObs{settings: out}

		return o.digest()
	}
	base := dump(c14rCase{})
	names := map[string]bool{}
	for _, f := range c14rFields {
		if names[f.name] {
			vrt.Fatalf("duplicate field %s", f.name)
		}
		names[f.name] = true
		if f.group == "world" {
			continue
		}
		seen := map[string]string{}
		for _, a := range f.alts {
			d := dump(c14rCase{Devs: []c14rDev{{F: f.name, V: a.name}}})
			if d == base {
				vrt.Fatalf("the dump does not tell %s=%s from the base value", f.name, a.name)
			}
			seen[d] = a.name
		}
	}
}

func TestVerifC14Restart(t *testing.T) {
	r := vrt.Start("C14")
	dir := c14rScratch(t, true)
	k := vrt.Pick(r, 2, 3)
	nAlts := 0
	for _, f := range c14rFields {
		nAlts += len(f.alts)
	}
	r.Bound("restart_fields", len(c14rFields))
	r.Bound("restart_alternatives", nAlts)
	r.Bound("restart_max_simultaneous_deviations", k)
	worlds := c14rResyncWorlds()
	nSyncs := vrt.Pick(r, 2, 3)
	r.Bound("resync_contents", len(worlds))
	r.Bound("resync_full_syncs_before_restart", nSyncs)
	r.Bound("restart_lookups_per_database", len(c14rUniDevIDs)+2*len(c14rUniIPs)+len(c14rUniHumans)*len(c14rUniProfiles))
	synctest.Test(t, func(t *testing.T) {
		c14rSelfCheck()
		vrt.Part(r, "restart",
			func(emit func(c c14rCase)) { c14rEnumerate(k, true, emit) },
			func(c c14rCase) []vrt.Finding { return c14rRunCase(r, dir, c) })
		// One long-lived database, several full synchronisations, then the
		// restart: all sequences of nSyncs contents of the alphabet.
		vrt.Part(r, "restart-after-resyncs",
			func(emit func(c c14rSeqCase)) {
				for n := 2; n <= nSyncs; n++ {
					vrt.Odometer(slices.Repeat([]int{len(worlds)}, n), func(idx []int) {
						sc := c14rSeqCase{}
						for _, i := range idx {
							sc.Syncs = append(sc.Syncs, worlds[i])
						}
						emit(sc)
					})
				}
			},
			func(c c14rSeqCase) []vrt.Finding { return c14rRunSyncs(r, dir, c, c.Syncs) })
	})
	r.Finish()
	_ = os.RemoveAll(dir)
	os.Exit(0)
}
