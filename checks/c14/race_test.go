//go:build verif

package profiledb

import (
	"context"
	"errors"
	"fmt"
	"io"
	"log/slog"
	"net/netip"
	"os"
	"runtime"
	"runtime/debug"
	"sort"
	"strings"
	"testing"
	"time"

	"github.com/AdguardTeam/AdGuardDNS/internal/agd"
	"github.com/AdguardTeam/AdGuardDNS/internal/dnsserver/zzverif/vrt"
	"github.com/AdguardTeam/AdGuardDNS/internal/dnsserver/zzverif/xsched"
)

// Schedule-exploration unit (engine XS).
//
// profiledb.go is built with its `sync` import redirected to the xsync shim
// (every Mutex / RWMutex operation is a scheduling point), with scheduling
// points before every call-containing statement of the refresh, set*,
// ProfileBy*, profileByDeviceID and remove* functions, and with its `go`
// statements turned into tasks.  After an initial full synchronisation (state
// S0) one task runs the synchronisation that leads to state S1 while one or
// two tasks look keys up.  Every interleaving within the preemption bound is
// executed on a fresh real database.
//
// Oracle (linearizability of this small case): every lookup answers exactly
// as the same lookup on a database in state S0 or on one in state S1 (profile
// record, device record, error kind), lookups never go back from S1 to S0 in
// real-time order, lookups started after Refresh returned answer as S1, and
// once everything has finished all lookups and — after the pending clean-ups
// ran — all four index maps equal those of a reference database that was
// synchronised without concurrency.

// ---- Backend states ------------------------------------------------------------

type c14xDevSpec struct {
	ID     string
	Ded    []string
	Linked string
	Human  string
}

type c14xProfSpec struct {
	ID      string
	Auto    bool
	Deleted bool
	Devs    []string
}

type c14xWorld struct {
	Profs []*c14xProfSpec
	Devs  map[string]*c14xDevSpec
}

const (
	c14xD1 = "198.51.100.1"
	c14xD2 = "198.51.100.2"
	c14xD3 = "198.51.100.3"
	c14xDC = "198.51.100.99"
	c14xL1 = "192.0.2.1"
	c14xL2 = "192.0.2.2"
	c14xLC = "192.0.2.99"
)

// c14xS0 is the initial state: profile pA with a1 (every kind of key) and a2,
// profile pB with b1, and the control profile pC with c1 that no variant
// touches.
func c14xS0() *c14xWorld {
	return &c14xWorld{
		Profs: []*c14xProfSpec{
			{ID: "pA", Devs: []string{"a1", "a2"}},
			{ID: "pB", Auto: true, Devs: []string{"b1"}},
			{ID: "pC", Devs: []string{"c1"}},
		},
		Devs: map[string]*c14xDevSpec{
			"a1": {ID: "a1", Ded: []string{c14xD1}, Linked: c14xL1, Human: "h1"},
			"a2": {ID: "a2", Ded: []string{c14xD2}},
			"b1": {ID: "b1", Ded: []string{c14xD3}, Linked: c14xL2, Human: "hb"},
			"c1": {ID: "c1", Ded: []string{c14xDC}, Linked: c14xLC, Human: "hc"},
		},
	}
}

func (w *c14xWorld) prof(id string) *c14xProfSpec {
	for _, p := range w.Profs {
		if p.ID == id {
			return p
		}
	}
	panic("no profile " + id)
}

func c14xWithout(list []string, x string) (out []string) {
	for _, v := range list {
		if v != x {
			out = append(out, v)
		}
	}

	return out
}

// c14xVariant turns S0 into S1 and names the profiles that changed.  When pre
// is set, it is synchronised (incrementally, without concurrency) before the
// exploration, so that S0 is the initial state after pre; these variants leave
// stale index entries behind, whose lazy clean-up then races the explored sync
// that hands the key out again.
type c14xVariant struct {
	name       string
	pre        func(w *c14xWorld)
	preChanged []string
	apply      func(w *c14xWorld)
	changed    []string
}

var c14xVariants = []c14xVariant{
	{name: "dedicated-ip-moves-within-profile", changed: []string{"pA"}, apply: func(w *c14xWorld) {
		w.Devs["a1"].Ded = nil
		w.Devs["a2"].Ded = []string{c14xD2, c14xD1}
	}},
	{name: "dedicated-ip-moves-to-other-profile", changed: []string{"pA", "pB"}, apply: func(w *c14xWorld) {
		w.Devs["a1"].Ded = nil
		w.Devs["b1"].Ded = []string{c14xD1, c14xD3}
	}},
	{name: "linked-ip-moves-to-other-profile", changed: []string{"pA", "pB"}, apply: func(w *c14xWorld) {
		w.Devs["a1"].Linked = ""
		w.Devs["b1"].Linked = c14xL1
	}},
	{name: "device-deleted", changed: []string{"pA"}, apply: func(w *c14xWorld) {
		w.prof("pA").Devs = []string{"a2"}
		delete(w.Devs, "a1")
	}},
	{name: "profile-deleted", changed: []string{"pA"}, apply: func(w *c14xWorld) {
		w.prof("pA").Deleted = true
		w.prof("pA").Devs = nil
		delete(w.Devs, "a1")
		delete(w.Devs, "a2")
	}},
	{name: "human-id-device-changes-profile", changed: []string{"pA", "pB"}, apply: func(w *c14xWorld) {
		w.prof("pA").Devs = []string{"a2"}
		w.prof("pB").Devs = []string{"b1", "a1"}
	}},
	// pB has AutoDevicesEnabled: the code starts no clean-up for its devices,
	// the membership re-check alone must keep the removed device out.
	{name: "device-deleted-from-auto-devices-profile", changed: []string{"pB"}, apply: func(w *c14xWorld) {
		w.prof("pB").Devs = nil
		delete(w.Devs, "b1")
	}},
	{name: "dropped-dedicated-ip-returns", preChanged: []string{"pA"}, pre: func(w *c14xWorld) {
		w.Devs["a1"].Ded = nil
	}, changed: []string{"pA"}, apply: func(w *c14xWorld) {
		w.Devs["a2"].Ded = []string{c14xD2, c14xD1}
	}},
	{name: "dropped-linked-ip-goes-to-other-profile", preChanged: []string{"pA"}, pre: func(w *c14xWorld) {
		w.Devs["a1"].Linked = ""
	}, changed: []string{"pB"}, apply: func(w *c14xWorld) {
		w.Devs["b1"].Linked = c14xL1
	}},
	{name: "deleted-device-returns", preChanged: []string{"pA"}, pre: func(w *c14xWorld) {
		w.prof("pA").Devs = []string{"a2"}
	}, changed: []string{"pA"}, apply: func(w *c14xWorld) {
		w.prof("pA").Devs = []string{"a2", "a1"}
	}},
}

// response builds a storage response: everything that exists (full) or the
// changed profiles with all of their current devices (incremental; a deleted
// profile is delivered with its flag).
func (w *c14xWorld) response(full bool, changed []string, version int64) (resp *StorageProfilesResponse) {
	resp = &StorageProfilesResponse{SyncTime: time.Unix(version, 0)}
	for _, ps := range w.Profs {
		if full && ps.Deleted {
			continue
		}
		isChanged := strings.Contains(","+strings.Join(changed, ",")+",", ","+ps.ID+",")
		if !full && !isChanged {
			continue
		}
		p := &agd.Profile{ID: agd.ProfileID(ps.ID), AutoDevicesEnabled: ps.Auto, Deleted: ps.Deleted, FilteringEnabled: true}
		// Records of changed profiles carry the new version in the device
		// name, so that an old record behind a new index entry is visible;
		// records of the other profiles are the same in S0 and S1.
		recVersion := int64(1)
		if isChanged {
			recVersion = version
		}
		for _, id := range ps.Devs {
			ds := w.Devs[id]
			p.DeviceIDs = append(p.DeviceIDs, agd.DeviceID(id))
			d := &agd.Device{ID: agd.DeviceID(id), Name: agd.DeviceName(fmt.Sprintf("%s-v%d", id, recVersion)), HumanIDLower: agd.HumanIDLower(ds.Human), FilteringEnabled: true}
			if ds.Linked != "" {
				d.LinkedIP = netip.MustParseAddr(ds.Linked)
			}
			for _, ip := range ds.Ded {
				d.DedicatedIPs = append(d.DedicatedIPs, netip.MustParseAddr(ip))
			}
			resp.Devices = append(resp.Devices, d)
		}
		resp.Profiles = append(resp.Profiles, p)
	}

	return resp
}

// ---- Lookups ---------------------------------------------------------------------

type c14xLookup struct {
	Kind string `json:"kind"` // "dev", "ded", "linked", "human"
	Key  string `json:"key"`
	Prof string `json:"prof,omitempty"`
}

func (l c14xLookup) String() string {
	if l.Kind == "human" {
		return "human(" + l.Prof + "," + l.Key + ")"
	}

	return l.Kind + "(" + l.Key + ")"
}

// c14xUniverse is every key that S0 or any S1 knows, plus absent ones.
var c14xUniverse = func() (out []c14xLookup) {
	for _, id := range []string{"a1", "a2", "b1", "c1", "zz"} {
		out = append(out, c14xLookup{Kind: "dev", Key: id})
	}
	for _, ip := range []string{c14xD1, c14xD2, c14xD3, c14xDC, "198.51.100.200"} {
		out = append(out, c14xLookup{Kind: "ded", Key: ip})
	}
	for _, ip := range []string{c14xL1, c14xL2, c14xLC, "192.0.2.200"} {
		out = append(out, c14xLookup{Kind: "linked", Key: ip})
	}
	for _, p := range []string{"pA", "pB", "pC"} {
		for _, h := range []string{"h1", "hc", "hb"} {
			out = append(out, c14xLookup{Kind: "human", Key: h, Prof: p})
		}
	}

	return out
}()

func c14xDo(db *Default, l c14xLookup) (res string) {
	ctx := context.Background()
	var p *agd.Profile
	var d *agd.Device
	var err error
	switch l.Kind {
	case "dev":
		p, d, err = db.ProfileByDeviceID(ctx, agd.DeviceID(l.Key))
	case "ded":
		p, d, err = db.ProfileByDedicatedIP(ctx, netip.MustParseAddr(l.Key))
	case "linked":
		p, d, err = db.ProfileByLinkedIP(ctx, netip.MustParseAddr(l.Key))
	default:
		p, d, err = db.ProfileByHumanID(ctx, agd.ProfileID(l.Prof), agd.HumanIDLower(l.Key))
	}
	switch {
	case errors.Is(err, ErrDeviceNotFound):
		return "not-found(device)"
	case errors.Is(err, ErrProfileNotFound):
		return "not-found(profile)"
	case err != nil:
		return "error(" + err.Error() + ")"
	case p == nil || d == nil:
		return "nil-without-error"
	}
	// The whole records: a device of state S1 with a profile record of state
	// S0 is a mix that neither state answers.
	return fmt.Sprintf("profile %s devices=%v deleted=%t / device %s dedicated=%v linked=%v human=%q name=%s",
		p.ID, p.DeviceIDs, p.Deleted, d.ID, d.DedicatedIPs, d.LinkedIP, d.HumanIDLower, d.Name)
}

// ---- Scenario ----------------------------------------------------------------------

type c14xScenario struct {
	Variant string `json:"variant"`
	Full    bool   `json:"full_sync"`
	// Pre is the preemption bound and Cleanups the number of clean-up
	// goroutines explored as tasks (the others run late) of this scenario.
	Pre      int `json:"preemptions"`
	Cleanups int `json:"cleanup_tasks"`
	// Tasks are the lookup tasks: indices into c14xUniverse, in order.
	Tasks [][]int `json:"tasks"`
}

func (sc c14xScenario) String() string {
	kind := "incremental"
	if sc.Full {
		kind = "full"
	}
	var ts []string
	for _, t := range sc.Tasks {
		var ls []string
		for _, i := range t {
			ls = append(ls, c14xUniverse[i].String())
		}
		ts = append(ts, strings.Join(ls, ";"))
	}

	return fmt.Sprintf("%s (%s sync, <=%d preemptions, %d clean-up tasks) || %s", sc.Variant, kind, sc.Pre, sc.Cleanups, strings.Join(ts, " || "))
}

func c14xVariantByName(name string) c14xVariant {
	for _, v := range c14xVariants {
		if v.name == name {
			return v
		}
	}
	vrt.Fatalf("unknown variant %q", name)

	return c14xVariant{}
}

func c14xIdx(kind, key, prof string) int {
	for i, l := range c14xUniverse {
		if l.Kind == kind && l.Key == key && l.Prof == prof {
			return i
		}
	}
	vrt.Fatalf("lookup %s %s %s is not in the universe", kind, key, prof)

	return -1
}

// c14xPrograms are, per variant, the lookup sequences of a task: the
// affected keys of every kind and keys that the variant does not touch.
func c14xPrograms(variant string) (out [][]int) {
	dev := func(k string) int { return c14xIdx("dev", k, "") }
	ded := func(k string) int { return c14xIdx("ded", k, "") }
	lnk := func(k string) int { return c14xIdx("linked", k, "") }
	hum := func(p, k string) int { return c14xIdx("human", k, p) }
	switch variant {
	case "dedicated-ip-moves-within-profile", "dedicated-ip-moves-to-other-profile":
		return [][]int{{ded(c14xD1), ded(c14xDC)}, {dev("a1"), ded(c14xD1)}, {ded(c14xD1), ded(c14xD1)}, {ded(c14xD2), ded(c14xD3)}}
	case "linked-ip-moves-to-other-profile":
		return [][]int{{lnk(c14xL1), lnk(c14xLC)}, {lnk(c14xL2), lnk(c14xL1)}, {dev("b1"), lnk(c14xL1)}}
	case "device-deleted":
		return [][]int{{dev("a1"), dev("c1")}, {ded(c14xD1), lnk(c14xL1)}, {hum("pA", "h1"), dev("a2")}}
	case "profile-deleted":
		return [][]int{{dev("a1"), dev("c1")}, {ded(c14xD2), hum("pA", "h1")}, {lnk(c14xL1), ded(c14xDC)}}
	case "human-id-device-changes-profile":
		return [][]int{{hum("pA", "h1"), hum("pB", "h1")}, {dev("a1"), hum("pC", "hc")}, {ded(c14xD1), lnk(c14xL1)}}
	case "device-deleted-from-auto-devices-profile":
		return [][]int{{dev("b1"), dev("c1")}, {ded(c14xD3), lnk(c14xL2)}, {hum("pB", "hb"), dev("a1")}}
	case "dropped-dedicated-ip-returns":
		return [][]int{{ded(c14xD1), ded(c14xD1)}, {ded(c14xD1), ded(c14xDC)}, {dev("a2"), ded(c14xD1)}}
	case "dropped-linked-ip-goes-to-other-profile":
		return [][]int{{lnk(c14xL1), lnk(c14xL1)}, {lnk(c14xL1), lnk(c14xLC)}, {dev("b1"), lnk(c14xL1)}}
	case "deleted-device-returns":
		return [][]int{{dev("a1"), dev("a1")}, {ded(c14xD1), dev("c1")}, {hum("pA", "h1"), lnk(c14xL1)}}
	}
	vrt.Fatalf("no programs for %q", variant)

	return nil
}

// c14xScenarios enumerates variant x {incremental, full} x lookup tasks.
//
// Quick (2 preemptions): one lookup task with each program (2 clean-up tasks;
// 1 for the variants with a preparing sync, whose clean-ups start early), and
// the first pair of programs as two tasks (1 clean-up task) for the variants
// without a preparing sync.
//
// Thorough: the single-task scenarios with 3 preemptions (clean-up tasks as in
// quick); the first pair with 3 preemptions for an incremental sync of the
// variants without a preparing sync and with 2 preemptions otherwise; every
// other unordered pair of programs, a program with itself included, with 2
// preemptions for the variants without a preparing sync.  (Measured: a pair
// with 3 preemptions costs 0.6 M executions, with a preparing sync > 2.7 M.)
func c14xScenarios(thorough bool) (out []c14xScenario) {
	pre := 2
	if thorough {
		pre = 3
	}
	for _, v := range c14xVariants {
		progs := c14xPrograms(v.name)
		for _, full := range []bool{false, true} {
			for _, p := range progs {
				cl := 2
				if v.pre != nil {
					cl = 1
				}
				out = append(out, c14xScenario{Variant: v.name, Full: full, Pre: pre, Cleanups: cl, Tasks: [][]int{p}})
			}
			for i := range progs {
				for j := i; j < len(progs); j++ {
					first := i == 0 && j == 1
					switch {
					case first && (thorough || v.pre == nil):
						pp := pre
						if full || v.pre != nil {
							pp = 2
						}
						out = append(out, c14xScenario{Variant: v.name, Full: full, Pre: pp, Cleanups: 1, Tasks: [][]int{progs[i], progs[j]}})
					case !first && thorough && v.pre == nil:
						out = append(out, c14xScenario{Variant: v.name, Full: full, Pre: 2, Cleanups: 1, Tasks: [][]int{progs[i], progs[j]}})
					}
				}
			}
		}
	}

	return out
}

// ---- Database under test -------------------------------------------------------------

type c14xStorage struct {
	resps []*StorageProfilesResponse
	reqs  []time.Time
}

func (s *c14xStorage) CreateAutoDevice(context.Context, *StorageCreateAutoDeviceRequest) (*StorageCreateAutoDeviceResponse, error) {
	return nil, errors.New("not used")
}

func (s *c14xStorage) Profiles(_ context.Context, req *StorageProfilesRequest) (*StorageProfilesResponse, error) {
	if len(s.resps) == 0 {
		return nil, errors.New("no more responses")
	}
	s.reqs = append(s.reqs, req.SyncTime)
	resp := s.resps[0]
	s.resps = s.resps[1:]

	return resp, nil
}

type c14xErrColl struct{}

func (c14xErrColl) Collect(context.Context, error) {}

var c14xLogger = slog.New(slog.NewTextHandler(io.Discard, nil))

// c14xNewDB returns a database in state S0 whose next Refresh leads to S1.
func c14xNewDB(sc c14xScenario) (db *Default, strg *c14xStorage) {
	v := c14xVariantByName(sc.Variant)
	s1 := c14xS0()
	strg = &c14xStorage{resps: []*StorageProfilesResponse{c14xS0().response(true, nil, 1)}}
	version := int64(2)
	if v.pre != nil {
		v.pre(s1)
		strg.resps = append(strg.resps, s1.response(false, v.preChanged, version))
		version++
	}
	v.apply(s1)
	strg.resps = append(strg.resps, s1.response(sc.Full, v.changed, version))
	db, err := New(&Config{
		Logger: c14xLogger, Storage: strg, ErrColl: c14xErrColl{}, Metrics: EmptyMetrics{}, CacheFilePath: "none",
		FullSyncIvl: 24 * time.Hour, FullSyncRetryIvl: 24 * time.Hour,
	})
	if err != nil {
		vrt.Fatalf("profiledb.New: %v", err)
	}
	if err = db.Refresh(context.Background()); err != nil {
		vrt.Fatalf("initial sync: %v", err)
	}
	if v.pre != nil {
		if err = db.Refresh(context.Background()); err != nil {
			vrt.Fatalf("preparing sync: %v", err)
		}
	}
	if sc.Full {
		// Make the next synchronisation a full one.
		db.lastFullSync = time.Time{}
	}

	return db, strg
}

// c14xDrain runs lookups of the whole universe without concurrency, with the
// clean-ups they start collected and run afterwards, and dumps the index
// maps.  It returns the lookup answers before and after the clean-ups.
func c14xDrain(db *Default) (before, after []string, indexes string) {
	var pending []func()
	xsched.SpawnHook = func(_ string, f func(), _ []any) { pending = append(pending, f) }
	defer func() { xsched.SpawnHook = nil }()
	for _, l := range c14xUniverse {
		before = append(before, c14xDo(db, l))
	}
	for len(pending) > 0 {
		f := pending[0]
		pending = pending[1:]
		f()
	}
	for _, l := range c14xUniverse {
		after = append(after, c14xDo(db, l))
	}
	for len(pending) > 0 {
		f := pending[0]
		pending = pending[1:]
		f()
	}
	var parts []string
	for k := range db.profiles {
		parts = append(parts, "profile "+string(k))
	}
	for k := range db.devices {
		parts = append(parts, "device "+string(k))
	}
	for k, v := range db.deviceIDToProfileID {
		parts = append(parts, fmt.Sprintf("deviceIDToProfileID[%s]=%s", k, v))
	}
	for k, v := range db.dedicatedIPToDeviceID {
		parts = append(parts, fmt.Sprintf("dedicatedIPToDeviceID[%s]=%s", k, v))
	}
	for k, v := range db.linkedIPToDeviceID {
		parts = append(parts, fmt.Sprintf("linkedIPToDeviceID[%s]=%s", k, v))
	}
	for k, v := range db.humanIDToDeviceID {
		parts = append(parts, fmt.Sprintf("humanIDToDeviceID[%s,%s]=%s", k.profile, k.lower, v))
	}
	sort.Strings(parts)

	return before, after, strings.Join(parts, "\n")
}

// c14xRef are the answers of the two states, computed without concurrency.
type c14xRef struct {
	s0      []string
	s1      []string
	s1After []string
	indexes string
}

var c14xRefs = map[string]*c14xRef{}

func c14xRefOf(sc c14xScenario) (ref *c14xRef) {
	key := fmt.Sprintf("%s/%t", sc.Variant, sc.Full)
	if ref = c14xRefs[key]; ref != nil {
		return ref
	}
	ref = &c14xRef{}
	db0, _ := c14xNewDB(sc)
	ref.s0, _, _ = c14xDrain(db0)
	db1, strg := c14xNewDB(sc)
	if err := db1.Refresh(context.Background()); err != nil {
		vrt.Fatalf("reference sync: %v", err)
	}
	if n := len(strg.reqs); len(strg.resps) != 0 || strg.reqs[n-1].IsZero() != sc.Full || (n == 3 && strg.reqs[1].IsZero()) {
		vrt.Fatalf("scenario %s: the second synchronisation was not of the wanted kind (requests %v)", sc, strg.reqs)
	}
	ref.s1, ref.s1After, ref.indexes = c14xDrain(db1)
	// Sanity: the variant changes something, leaves the control keys alone,
	// and the clean-ups do not change any answer.
	if fmt.Sprint(ref.s0) == fmt.Sprint(ref.s1) {
		vrt.Fatalf("scenario %s: S0 and S1 answer alike", sc)
	}
	if fmt.Sprint(ref.s1) != fmt.Sprint(ref.s1After) {
		vrt.Fatalf("scenario %s: the reference answers change after the clean-ups:\n%v\n%v", sc, ref.s1, ref.s1After)
	}
	c14xRefs[key] = ref

	return ref
}

// c14xObs is one lookup performed during the exploration.
type c14xObs struct {
	task       int
	lookup     int
	start, end int
	res        string
}

type c14xEnv struct {
	// spawned counts the clean-up goroutines started during the exploration;
	// the first cleanupTasks of them are tasks of the explorer, the others
	// are late goroutines: they run after everything else has finished.
	spawned int
	late    []func()

	sc        c14xScenario
	db        *Default
	seq       int
	syncStart int
	syncEnd   int
	syncErr   error
	obs       []*c14xObs
}

func c14xSetup(sc c14xScenario, s *xsched.Sched) (env *c14xEnv) {
	env = &c14xEnv{sc: sc}
	env.db, _ = c14xNewDB(sc)
	tick := func() int { env.seq++; return env.seq }
	limit := sc.Cleanups
	xsched.SpawnHook = func(label string, f func(), _ []any) {
		env.spawned++
		if cur := xsched.Cur(); cur != nil && env.spawned <= limit {
			cur.Go(label, f)

			return
		}
		env.late = append(env.late, f)
	}
	s.Go("sync", func() {
		env.syncStart = tick()
		env.syncErr = env.db.Refresh(context.Background())
		env.syncEnd = tick()
	})
	for ti, prog := range sc.Tasks {
		s.Go(fmt.Sprintf("lookups%d", ti+1), func() {
			for _, li := range prog {
				o := &c14xObs{task: ti, lookup: li, start: tick()}
				o.res = c14xDo(env.db, c14xUniverse[li])
				o.end = tick()
				env.obs = append(env.obs, o)
			}
		})
	}

	return env
}

type c14xCase struct {
	Scenario c14xScenario `json:"scenario"`
	Choices  []int        `json:"choices"`
}

func c14xCheck(env *c14xEnv, x *xsched.Exec) (fs []vrt.Finding) {
	sc := env.sc
	xsched.SpawnHook = nil
	seen := map[string]bool{}
	add := func(key, format string, args ...any) {
		if seen[key] {
			return
		}
		seen[key] = true
		fs = append(fs, vrt.Finding{Key: key, Detail: fmt.Sprintf("scenario %s: ", sc) + fmt.Sprintf(format, args...) + "\nschedule:\n" + x.Sched.Describe()})
	}
	if x.Sched.Panicked != "" {
		add("race/panic", "%s", x.Sched.Panicked)

		return fs
	}
	if x.Sched.Deadlock || x.Sched.LimitHit {
		add("race/deadlock", "blocked: %v (step limit hit: %t)", x.Sched.Blocked, x.Sched.LimitHit)

		return fs
	}
	if env.syncErr != nil {
		vrt.Fatalf("scenario %s: sync failed: %v", sc, env.syncErr)
	}
	ref := c14xRefOf(sc)
	want := 0
	for _, t := range sc.Tasks {
		want += len(t)
	}
	if len(env.obs) != want {
		vrt.Fatalf("scenario %s: %d lookups recorded, want %d", sc, len(env.obs), want)
	}
	is0 := func(o *c14xObs) bool { return o.res == ref.s0[o.lookup] }
	is1 := func(o *c14xObs) bool { return o.res == ref.s1[o.lookup] }
	for _, o := range env.obs {
		l := c14xUniverse[o.lookup]
		switch {
		case !is0(o) && !is1(o):
			key := "race/lookup-answer-of-neither-state"
			if ref.s0[o.lookup] == ref.s1[o.lookup] {
				key = "race/unaffected-key-answered-differently"
			}
			add(key, "lookup %s of task lookups%d answered\n     %s\n   the database before the sync answers\n     %s\n   and after it\n     %s",
				l, o.task+1, o.res, ref.s0[o.lookup], ref.s1[o.lookup])
		case o.start > env.syncEnd && env.syncEnd > 0 && !is1(o):
			add("race/stale-answer-after-sync-returned", "lookup %s started after Refresh had returned and answered as before the sync: %s", l, o.res)
		case o.end < env.syncStart && !is0(o):
			add("race/answer-from-the-future", "lookup %s ended before Refresh was called and answered as after the sync: %s", l, o.res)
		}
	}
	for _, a := range env.obs {
		for _, b := range env.obs {
			if a.end < b.start && is1(a) && !is0(a) && is0(b) && !is1(b) {
				add("race/lookups-go-back-in-time", "lookup %s saw the new state (%s), and lookup %s, started after it had ended, saw the old one (%s)",
					c14xUniverse[a.lookup], a.res, c14xUniverse[b.lookup], b.res)
			}
		}
	}

	// Quiescence: the late clean-ups first.
	for _, f := range env.late {
		f()
	}
	before, after, indexes := c14xDrain(env.db)
	for i, l := range c14xUniverse {
		if before[i] != ref.s1[i] {
			add("race/wrong-answer-after-everything-finished", "after the sync and all lookups had finished, lookup %s answers\n     %s\n   instead of\n     %s", l, before[i], ref.s1[i])
		} else if after[i] != ref.s1After[i] {
			add("race/wrong-answer-after-clean-ups", "after the pending clean-ups ran, lookup %s answers\n     %s\n   instead of\n     %s", l, after[i], ref.s1After[i])
		}
	}
	if indexes != ref.indexes && len(fs) == 0 {
		add("race/indexes-differ-after-clean-ups", "after everything finished and the clean-ups ran the maps are\n%s\n   a database synchronised without concurrency has\n%s", indexes, ref.indexes)
	}

	return fs
}

func TestVerifC14Race(t *testing.T) {
	r := vrt.Start("C14")
	debug.SetGCPercent(-1)
	var rc c14xCase
	if r.ReplayCase("race", &rc) {
		var env *c14xEnv
		x := xsched.Replay(rc.Choices, func(s *xsched.Sched) { env = c14xSetup(rc.Scenario, s) })
		r.Eval()
		r.Report("race", rc, c14xCheck(env, x))
	}
	if r.ShouldRun() {
		shard, nshards := r.NShards()
		scs := c14xScenarios(r.Thorough())
		r.Bound("race_preemptions", vrt.Pick(r, "2", "3 for one lookup task and for the first pair of lookup tasks next to an incremental sync; 2 for the other pairs"))
		r.Bound("race_scenarios", len(scs))
		r.Bound("race_variants", len(c14xVariants))
		execs := 0
		for si, sc := range scs {
			if os.Getenv("C14X_SCENARIO") == "list" {
				fmt.Fprintf(os.Stderr, "%d %s\n", si, sc)

				continue
			}
			if si%nshards != shard {
				continue
			}
			if only := os.Getenv("C14X_SCENARIO"); only != "" && only != fmt.Sprint(si) {
				continue
			}
			if r.Expired() {
				r.Note("race exploration stopped by internal deadline before scenario %d of %d", si, len(scs))

				break
			}
			var env *c14xEnv
			found := 0
			st := xsched.Explore(xsched.Config{MaxPreemptions: sc.Pre, MaxDeviations: 0, Stop: r.Expired},
				func(s *xsched.Sched) { env = c14xSetup(sc, s) },
				func(x *xsched.Exec) bool {
					execs++
					if execs%2000 == 0 {
						runtime.GC()
					}
					r.Eval()
					r.Trans(len(x.Sched.Trace))
					fs := c14xCheck(env, x)
					ref := c14xRefOf(sc)
					var obs []string
					n0, n1 := 0, 0
					for _, o := range env.obs {
						side := "?"
						switch {
						case o.res == ref.s0[o.lookup] && o.res == ref.s1[o.lookup]:
							side = "="
						case o.res == ref.s0[o.lookup]:
							side = "S0"
							n0++
						case o.res == ref.s1[o.lookup]:
							side = "S1"
							n1++
						}
						obs = append(obs, fmt.Sprintf("T%d:%s=%s", o.task+1, c14xUniverse[o.lookup], side))
					}
					sort.Strings(obs)
					r.Class(fmt.Sprintf("race lookups=%d saw-old=%d saw-new=%d", len(env.obs), n0, n1))
					if r.State(fmt.Sprintf("%s|%v", sc, obs)) {
						r.Sample(map[string]any{"scenario": sc.String(), "observation": obs, "preemptions": x.Preemptions})
					}
					if len(fs) > 0 {
						r.Report("race", c14xCase{Scenario: sc, Choices: x.Choices}, fs)
						found++
					}

					return found < 1
				})
			r.Count("race_scheduling_points", st.Points)
			if os.Getenv("C14X_SCENARIO") != "" {
				fmt.Fprintf(os.Stderr, "scenario %d %s: %+v\n", si, sc, st)
			}
			r.Count("race_scenarios_explored", 1)
			if st.Stopped {
				r.Note("race scenario %s stopped by deadline after %d executions", sc, st.Executions)
			}
		}
	}
	r.Finish()
	os.Exit(0)
}
