//go:build verif

package profiledb

import (
	"context"
	"errors"
	"fmt"
	"io"
	"log/slog"
	"net/netip"
	"os"
	"sort"
	"strings"
	"testing"
	"time"

	"github.com/AdguardTeam/AdGuardDNS/internal/agd"
	"github.com/AdguardTeam/AdGuardDNS/internal/dnsserver/zzverif/vrt"
	"github.com/AdguardTeam/AdGuardDNS/internal/dnsserver/zzverif/xsched"
	"github.com/AdguardTeam/AdGuardDNS/internal/profiledb/internal"
)

// ---- The backend: the true state that synchronisations deliver. -----------

type c14Dev struct {
	Owner  string // profile id, "" = deleted device
	Linked string // "", "x", "y"
	Ded    string // "", "u", "v"
	Human  string // "", "h1", "h2"
}

type c14Prof struct {
	// Auto is AutoDevicesEnabled.  For such profiles the real code does not
	// start the removeDevice clean-up; the answers must be the same.
	Auto     bool
	Deleted  bool
	Modified int // backend version of the last change
}

type c14Backend struct {
	Version int
	Profs   map[string]*c14Prof
	Devs    map[string]*c14Dev
}

var (
	c14IPs = map[string]netip.Addr{
		"x": netip.MustParseAddr("192.0.2.10"), "y": netip.MustParseAddr("192.0.2.11"),
		"u": netip.MustParseAddr("198.51.100.20"), "v": netip.MustParseAddr("198.51.100.21"),
	}
	c14DevIDs  = []string{"d1", "d2", "d3"}
	c14ProfIDs = []string{"p1", "p2"}
)

func c14NewBackend() *c14Backend {
	return &c14Backend{
		Version: 1,
		Profs:   map[string]*c14Prof{"p1": {Modified: 1}, "p2": {Modified: 1}},
		Devs: map[string]*c14Dev{
			"d1": {Owner: "p1", Linked: "x", Ded: "u"},
			"d2": {Owner: "p2", Ded: "v"},
			"d3": {Owner: "p1", Human: "h1"},
		},
	}
}

func (b *c14Backend) clone() *c14Backend {
	nb := &c14Backend{Version: b.Version, Profs: map[string]*c14Prof{}, Devs: map[string]*c14Dev{}}
	for k, v := range b.Profs {
		c := *v
		nb.Profs[k] = &c
	}
	for k, v := range b.Devs {
		c := *v
		nb.Devs[k] = &c
	}

	return nb
}

func (b *c14Backend) touch(p string) {
	if pr, ok := b.Profs[p]; ok {
		pr.Modified = b.Version
	}
}

func other(p string) string {
	if p == "p1" {
		return "p2"
	}

	return "p1"
}

// mutate applies mutation m; it reports false when m is not applicable.
// Mutations never make two current devices claim the same key.
func (b *c14Backend) mutate(m string) bool {
	b.Version++
	d1, d2, d3 := b.Devs["d1"], b.Devs["d2"], b.Devs["d3"]
	linkedFree := func(ip string) bool {
		for _, d := range b.Devs {
			if d.Owner != "" && d.Linked == ip {
				return false
			}
		}

		return true
	}
	switch m {
	case "none":
	case "d1-linked-toggle":
		if d1.Owner == "" {
			return false
		}
		nw := "y"
		if d1.Linked == "y" {
			nw = "x"
		}
		if !linkedFree(nw) {
			return false
		}
		d1.Linked = nw
		b.touch(d1.Owner)
	case "d2-linked-take-x":
		if d2.Owner == "" {
			return false
		}
		if d2.Linked == "x" {
			d2.Linked = ""
		} else if linkedFree("x") {
			d2.Linked = "x"
		} else {
			return false
		}
		b.touch(d2.Owner)
	case "d1-move":
		if d1.Owner == "" || b.Profs[other(d1.Owner)].Deleted {
			return false
		}
		b.touch(d1.Owner)
		d1.Owner = other(d1.Owner)
		b.touch(d1.Owner)
	case "d1-remove-readd":
		if d1.Owner == "" {
			if b.Profs["p1"].Deleted || (d1.Linked != "" && !linkedFree(d1.Linked)) {
				return false
			}
			for _, d := range b.Devs {
				if d != d1 && d.Owner != "" && d1.Ded != "" && d.Ded == d1.Ded {
					return false
				}
			}
			d1.Owner = "p1"
		} else {
			b.touch(d1.Owner)
			d1.Owner = ""
		}
		b.touch("p1")
	case "d1-d2-swap-dedicated":
		if d1.Owner == "" || d2.Owner == "" {
			return false
		}
		d1.Ded, d2.Ded = d2.Ded, d1.Ded
		b.touch(d1.Owner)
		b.touch(d2.Owner)
	case "d1-d2-swap-linked":
		// Both devices arrive in one response and exchange their linked IPs
		// (one of them may have none: then it is a hand-over).
		if d1.Owner == "" || d2.Owner == "" || d1.Linked == d2.Linked {
			return false
		}
		d1.Linked, d2.Linked = d2.Linked, d1.Linked
		b.touch(d1.Owner)
		b.touch(d2.Owner)
	case "d1-d2-linked-handover":
		// The device that has a linked IP gives it up and the other one takes
		// it, losing its own: d2 -> d1 (the taker comes first in the response)
		// when d2 has one, else d1 -> d2.
		if d1.Owner == "" || d2.Owner == "" || (d1.Linked == "" && d2.Linked == "") {
			return false
		}
		if d2.Linked != "" {
			d1.Linked, d2.Linked = d2.Linked, ""
		} else {
			d1.Linked, d2.Linked = "", d1.Linked
		}
		b.touch(d1.Owner)
		b.touch(d2.Owner)
	case "d1-d2-dedicated-handover":
		if d1.Owner == "" || d2.Owner == "" || (d1.Ded == "" && d2.Ded == "") {
			return false
		}
		if d2.Ded != "" {
			d1.Ded, d2.Ded = d2.Ded, ""
		} else {
			d1.Ded, d2.Ded = "", d1.Ded
		}
		b.touch(d1.Owner)
		b.touch(d2.Owner)
	case "d1-d3-human-handover":
		// d3's human id goes to d1 (earlier in the response) or back.
		if d1.Owner == "" || d3.Owner == "" || (d1.Human == "" && d3.Human == "") {
			return false
		}
		if d3.Human != "" {
			d1.Human, d3.Human = d3.Human, ""
		} else {
			d1.Human, d3.Human = "", d1.Human
		}
		b.touch(d1.Owner)
		b.touch(d3.Owner)
	case "d3-human-toggle":
		if d3.Owner == "" || d3.Human == "" {
			return false
		}
		if d3.Human == "h1" {
			d3.Human = "h2"
		} else {
			d3.Human = "h1"
		}
		b.touch(d3.Owner)
	case "d3-move":
		if d3.Owner == "" || b.Profs[other(d3.Owner)].Deleted {
			return false
		}
		b.touch(d3.Owner)
		d3.Owner = other(d3.Owner)
		b.touch(d3.Owner)
	case "p1-auto-devices-toggle":
		p1 := b.Profs["p1"]
		if p1.Deleted {
			return false
		}
		p1.Auto = !p1.Auto
		p1.Modified = b.Version
	case "p2-delete-toggle":
		p2 := b.Profs["p2"]
		if !p2.Deleted {
			// Its devices are deleted with it.
			for _, d := range b.Devs {
				if d.Owner == "p2" {
					d.Owner = ""
				}
			}
		}
		p2.Deleted = !p2.Deleted
		p2.Modified = b.Version
	default:
		panic("bad mutation " + m)
	}

	return true
}

var c14Mutations = []string{"none", "d1-linked-toggle", "d2-linked-take-x", "d1-move", "d1-remove-readd", "d1-d2-swap-dedicated", "d3-human-toggle", "d3-move", "p2-delete-toggle", "p1-auto-devices-toggle",
	"d1-d2-swap-linked", "d1-d2-linked-handover", "d1-d2-dedicated-handover", "d1-d3-human-handover"}

func (b *c14Backend) device(id string) *agd.Device {
	d := b.Devs[id]
	dev := &agd.Device{ID: agd.DeviceID(id), Name: agd.DeviceName(id + "-v" + fmt.Sprint(b.Version)), FilteringEnabled: true, HumanIDLower: agd.HumanIDLower(d.Human)}
	if d.Linked != "" {
		dev.LinkedIP = c14IPs[d.Linked]
	}
	if d.Ded != "" {
		dev.DedicatedIPs = []netip.Addr{c14IPs[d.Ded]}
	}

	return dev
}

// response builds the storage response for a request with the given sync
// version (0 = full): every profile changed since then, each with all of its
// current devices, as the backend protocol does.
func (b *c14Backend) response(since int) *StorageProfilesResponse {
	resp := &StorageProfilesResponse{SyncTime: time.Unix(int64(b.Version), 0)}
	for _, pid := range c14ProfIDs {
		p := b.Profs[pid]
		if since == 0 && p.Deleted {
			continue
		}
		if p.Modified <= since {
			continue
		}
		prof := &agd.Profile{ID: agd.ProfileID(pid), Deleted: p.Deleted, FilteringEnabled: true, AutoDevicesEnabled: p.Auto}
		for _, did := range c14DevIDs {
			if b.Devs[did].Owner == pid {
				prof.DeviceIDs = append(prof.DeviceIDs, agd.DeviceID(did))
				resp.Devices = append(resp.Devices, b.device(did))
			}
		}
		resp.Profiles = append(resp.Profiles, prof)
	}

	return resp
}

// ---- Events ----------------------------------------------------------------

type c14Event struct {
	// Kind: "sync" (mutation then partial sync), "full" (full sync), "fail"
	// (sync attempt that fails), "fail-full" (a due full sync fails; later
	// syncs are partial until the retry interval has passed), "lookup", "run"
	// (a pending clean-up).
	Kind string `json:"kind"`
	Arg  string `json:"arg,omitempty"`
	Idx  int    `json:"idx,omitempty"`
}

type c14Lookup struct {
	Kind string // "dev", "linked", "ded", "human"
	Key  string
	Prof string
}

var c14Lookups = func() (out []c14Lookup) {
	for _, d := range c14DevIDs {
		out = append(out, c14Lookup{Kind: "dev", Key: d})
	}
	for _, ip := range []string{"x", "y"} {
		out = append(out, c14Lookup{Kind: "linked", Key: ip})
	}
	for _, ip := range []string{"u", "v"} {
		out = append(out, c14Lookup{Kind: "ded", Key: ip})
	}
	for _, p := range c14ProfIDs {
		for _, h := range []string{"h1", "h2"} {
			out = append(out, c14Lookup{Kind: "human", Key: h, Prof: p})
		}
	}

	return out
}()

func (l c14Lookup) String() string { return l.Kind + ":" + l.Prof + l.Key }

// ---- The system under test --------------------------------------------------

type c14Pending struct {
	label string
	args  string
	f     func()
}

type c14Sys struct {
	db      *Default
	be      *c14Backend // live backend
	synced  *c14Backend // backend state as of the last successful sync
	pending []c14Pending
	discard bool
	failing bool
	calls   int
	// storeFails makes the write of the file cache (full syncs) fail.
	storeFails bool
	// lastSyncPoint is the synchronisation point the backend gave in its most
	// recent response; lateStore describes a file cache handed to the store
	// with a LATER synchronisation time.
	lastSyncPoint time.Time
	lateStore     string
}

type c14Storage struct{ sys *c14Sys }

func (s *c14Storage) CreateAutoDevice(context.Context, *StorageCreateAutoDeviceRequest) (*StorageCreateAutoDeviceResponse, error) {
	return nil, errors.New("not used")
}

func (s *c14Storage) Profiles(_ context.Context, req *StorageProfilesRequest) (*StorageProfilesResponse, error) {
	s.sys.calls++
	if s.sys.failing {
		return nil, errors.New("backend unavailable")
	}
	since := 0
	if !req.SyncTime.IsZero() {
		since = int(req.SyncTime.Unix())
	}

	resp := s.sys.be.response(since)
	s.sys.lastSyncPoint = resp.SyncTime

	return resp, nil
}

// c14Cache is the file-cache seam of the database: it stores nothing and
// fails on demand, as a full disk or a removed directory makes the real one.
type c14Cache struct{ sys *c14Sys }

func (c *c14Cache) Load(context.Context) (*internal.FileCache, error) { return nil, nil }
func (c *c14Cache) Store(_ context.Context, fc *internal.FileCache) error {
	// A database restarted from this cache asks the backend for the changes
	// since fc.SyncTime: a time later than the backend's own synchronisation
	// point loses every change made in between.
	if fc != nil && fc.SyncTime.After(c.sys.lastSyncPoint) {
		c.sys.lateStore = fmt.Sprintf("file cache stored with sync time %s, the backend's synchronisation point of the data is %s", fc.SyncTime.UTC(), c.sys.lastSyncPoint.UTC())
	}
	if c.sys.storeFails {
		return errors.New("write profilecache.pb: no space left on device")
	}

	return nil
}

type c14ErrColl struct{}

func (c14ErrColl) Collect(context.Context, error) {}

var c14Logger = slog.New(slog.NewTextHandler(io.Discard, nil))

func c14NewSys() *c14Sys {
	sys := &c14Sys{be: c14NewBackend()}
	sys.synced = &c14Backend{Profs: map[string]*c14Prof{}, Devs: map[string]*c14Dev{}}
	db, err := New(&Config{
		Logger:           c14Logger,
		Storage:          &c14Storage{sys: sys},
		ErrColl:          c14ErrColl{},
		Metrics:          EmptyMetrics{},
		CacheFilePath:    "none",
		FullSyncIvl:      24 * time.Hour,
		FullSyncRetryIvl: 24 * time.Hour,
	})
	if err != nil {
		vrt.Fatalf("profiledb.New: %v", err)
	}
	db.cache = &c14Cache{sys: sys}
	sys.db = db

	return sys
}

// c14Cur is the system whose operation is running; the spawn hook routes the
// intercepted go statements to it.
var c14Cur *c14Sys

func c14InstallHook() {
	xsched.SpawnHook = func(label string, f func(), args []any) { c14Cur.hook(label, f, args) }
}

func (sys *c14Sys) hook(label string, f func(), args []any) {
	if sys.discard {
		return
	}
	var as []string
	for _, a := range args {
		if _, ok := a.(context.Context); ok {
			continue
		}
		as = append(as, fmt.Sprint(a))
	}
	sys.pending = append(sys.pending, c14Pending{label: label, args: strings.Join(as, ","), f: f})
}

func (sys *c14Sys) lookup(l c14Lookup) (p *agd.Profile, d *agd.Device, err error) {
	c14Cur = sys
	ctx := context.Background()
	switch l.Kind {
	case "dev":
		return sys.db.ProfileByDeviceID(ctx, agd.DeviceID(l.Key))
	case "linked":
		return sys.db.ProfileByLinkedIP(ctx, c14IPs[l.Key])
	case "ded":
		return sys.db.ProfileByDedicatedIP(ctx, c14IPs[l.Key])
	default:
		return sys.db.ProfileByHumanID(ctx, agd.ProfileID(l.Prof), agd.HumanIDLower(l.Key))
	}
}

// apply executes one event; ok is false when the event is not applicable in
// this state.
func (sys *c14Sys) apply(e c14Event) (ok bool) {
	c14Cur = sys
	ctx := context.Background()
	switch e.Kind {
	case "sync", "full":
		if e.Kind == "sync" {
			if !sys.be.mutate(e.Arg) {
				return false
			}
		} else {
			sys.be.Version++
			sys.db.lastFullSync = time.Time{}
			sys.db.lastFullSyncError = time.Time{}
		}
		if sys.db.lastFullSync.IsZero() {
			// The very first sync is a full one.
			sys.db.lastFullSyncError = time.Time{}
		}
		if err := sys.db.Refresh(ctx); err != nil {
			vrt.Fatalf("refresh: %v", err)
		}
		sys.synced = sys.be.clone()
	case "full-storefail":
		// A full sync whose data arrives, but whose file-cache write fails
		// (full disk): Refresh reports the error; what was synchronised is in
		// force all the same, and later partial syncs continue from it.
		if sys.db.lastFullSync.IsZero() || !sys.be.mutate(e.Arg) {
			return false
		}
		sys.db.lastFullSync, sys.db.lastFullSyncError = time.Time{}, time.Time{}
		sys.storeFails = true
		err := sys.db.Refresh(ctx)
		sys.storeFails = false
		if err == nil {
			vrt.Fatalf("refresh with a failing cache write returned nil")
		}
		if sys.db.lastFullSync.IsZero() {
			// The harness only forces full syncs explicitly.
			sys.db.lastFullSync = time.Now()
		}
		sys.db.lastFullSyncError = time.Time{}
		sys.synced = sys.be.clone()
	case "fail-full":
		// The full-sync interval has elapsed and the full attempt fails; the
		// syncs that follow fall inside the retry interval, so they are
		// partial ones from the last good sync point.
		if sys.db.lastFullSync.IsZero() {
			return false
		}
		last := sys.db.lastFullSync
		sys.db.lastFullSync, sys.db.lastFullSyncError = time.Time{}, time.Time{}
		sys.failing = true
		err := sys.db.Refresh(ctx)
		sys.failing = false
		if err == nil {
			vrt.Fatalf("failing full refresh returned nil")
		}
		sys.db.lastFullSync = last
	case "fail":
		sys.failing = true
		err := sys.db.Refresh(ctx)
		sys.failing = false
		if err == nil {
			vrt.Fatalf("failing refresh returned nil")
		}
		// A failed full sync must not block later syncs in this harness.
		sys.db.lastFullSyncError = time.Time{}
	case "lookup":
		_, _, _ = sys.lookup(c14Lookups[e.Idx])
	case "run":
		if e.Idx >= len(sys.pending) {
			return false
		}
		pd := sys.pending[e.Idx]
		sys.pending = append(sys.pending[:e.Idx:e.Idx], sys.pending[e.Idx+1:]...)
		pd.f()
	}

	return true
}

// expect is the reference: what a lookup must return given the backend state
// as of the last successful sync.
func (sys *c14Sys) expect(l c14Lookup) (prof, dev string) {
	s := sys.synced
	owned := func(id string) bool {
		d := s.Devs[id]
		if d == nil || d.Owner == "" {
			return false
		}
		p := s.Profs[d.Owner]

		return p != nil && !p.Deleted
	}
	for _, id := range c14DevIDs {
		if !owned(id) {
			continue
		}
		d := s.Devs[id]
		switch l.Kind {
		case "dev":
			if id == l.Key {
				return d.Owner, id
			}
		case "linked":
			if d.Linked == l.Key {
				return d.Owner, id
			}
		case "ded":
			if d.Ded == l.Key {
				return d.Owner, id
			}
		case "human":
			if d.Human == l.Key && d.Owner == l.Prof {
				return d.Owner, id
			}
		}
	}

	return "", ""
}

// observe runs every lookup of the key universe without letting them queue
// clean-ups and compares with the reference.
func (sys *c14Sys) observe() (fs []vrt.Finding, obs string) {
	sys.discard = true
	defer func() { sys.discard = false }()
	var sb strings.Builder
	if sys.lateStore != "" {
		fs = append(fs, vrt.F("profiledb/file-cache-sync-time-after-backend-sync-point", "%s: after a restart from this cache the incremental syncs never ask for the changes made in between", sys.lateStore)...)
	}
	for _, l := range c14Lookups {
		p, d, err := sys.lookup(l)
		wantP, wantD := sys.expect(l)
		gotP, gotD := "", ""
		if err == nil && p != nil && d != nil {
			gotP, gotD = string(p.ID), string(d.ID)
		} else if err == nil {
			fs = append(fs, vrt.F("profiledb/nil-result-without-error", "lookup %s returned nil without an error", l)...)
		}
		fmt.Fprintf(&sb, "%s=%s/%s ", l, gotP, gotD)
		if gotP == wantP && gotD == wantD {
			if gotD != "" {
				// The record returned must be the latest one.
				want := sys.synced.device(gotD)
				if d.LinkedIP != want.LinkedIP || fmt.Sprint(d.DedicatedIPs) != fmt.Sprint(want.DedicatedIPs) || d.HumanIDLower != want.HumanIDLower {
					fs = append(fs, vrt.F("profiledb/stale-device-record/"+l.Kind, "lookup %s returned device %s with linked=%v dedicated=%v human=%q; latest sync has linked=%v dedicated=%v human=%q", l, gotD, d.LinkedIP, d.DedicatedIPs, d.HumanIDLower, want.LinkedIP, want.DedicatedIPs, want.HumanIDLower)...)
				}
			}

			continue
		}
		// A deleted profile may still be returned with its Deleted flag set.
		if wantD == "" && err == nil && p.Deleted {
			continue
		}
		key := "profiledb/lookup-wrong-owner/" + l.Kind
		if gotD == "" {
			key = "profiledb/lookup-misses-current-owner/" + l.Kind
		} else if wantD == "" {
			key = "profiledb/lookup-finds-stale-key/" + l.Kind
		}
		fs = append(fs, vrt.F(key, "lookup %s returned (%q, %q) err=%v; the latest synchronised data says (%q, %q)", l, gotP, gotD, err, wantP, wantD)...)
	}

	return fs, sb.String()
}

func (sys *c14Sys) digest() string {
	db := sys.db
	var parts []string
	for k, v := range db.profiles {
		parts = append(parts, fmt.Sprintf("P%s:%v:%v:%v", k, v.DeviceIDs, v.Deleted, v.AutoDevicesEnabled))
	}
	for k, v := range db.devices {
		parts = append(parts, fmt.Sprintf("D%s:%v:%v:%s", k, v.LinkedIP, v.DedicatedIPs, v.HumanIDLower))
	}
	for k, v := range db.dedicatedIPToDeviceID {
		parts = append(parts, fmt.Sprintf("ded%v:%s", k, v))
	}
	for k, v := range db.deviceIDToProfileID {
		parts = append(parts, fmt.Sprintf("d2p%v:%s", k, v))
	}
	for k, v := range db.humanIDToDeviceID {
		parts = append(parts, fmt.Sprintf("hum%v:%s", k, v))
	}
	for k, v := range db.linkedIPToDeviceID {
		parts = append(parts, fmt.Sprintf("lnk%v:%s", k, v))
	}
	sort.Strings(parts)
	var sb strings.Builder
	sb.WriteString(strings.Join(parts, " "))
	fmt.Fprintf(&sb, "|full=%v|ferr=%v|st0=%v", db.lastFullSync.IsZero(), db.lastFullSyncError.IsZero(), db.syncTime.IsZero())
	// Backend: current state and change stamps relative to the sync point.
	for _, b := range []*c14Backend{sys.be, sys.synced} {
		sb.WriteString("|")
		for _, id := range c14DevIDs {
			if d := b.Devs[id]; d != nil {
				fmt.Fprintf(&sb, "%s:%v ", id, *d)
			}
		}
		for _, id := range c14ProfIDs {
			if p := b.Profs[id]; p != nil {
				fmt.Fprintf(&sb, "%s:%v:%v:%v ", id, p.Deleted, p.Auto, p.Modified > sys.synced.Version)
			}
		}
	}
	sb.WriteString("|pend:")
	for _, p := range sys.pending {
		fmt.Fprintf(&sb, "%s(%s) ", p.label, p.args)
	}

	return sb.String()
}

type c14Case struct {
	Events []c14Event `json:"events"`
}

// c14Run replays a history on a fresh database; it checks the oracle after
// the last event only (prefixes were checked when they were explored), or
// after every event when all is set.
func c14Run(r *vrt.Run, c c14Case, all bool) (fs []vrt.Finding, sys *c14Sys, ok bool) {
	sys = c14NewSys()
	for i, e := range c.Events {
		if !sys.apply(e) {
			return nil, sys, false
		}
		r.Trans(1)
		if all || i == len(c.Events)-1 {
			f, _ := sys.observe()
			if len(f) > 0 {
				f[0].Detail += fmt.Sprintf("\n   after history %+v\n   pending clean-ups: %s", c.Events[:i+1], sys.digest()[strings.Index(sys.digest(), "|pend:"):])

				return f[:1], sys, true
			}
		}
	}

	return nil, sys, true
}

func c14Alphabet(sys *c14Sys) (evs []c14Event) {
	for _, m := range c14Mutations {
		evs = append(evs, c14Event{Kind: "sync", Arg: m})
	}
	evs = append(evs, c14Event{Kind: "full"}, c14Event{Kind: "fail"}, c14Event{Kind: "fail-full"})
	for _, m := range []string{"p2-delete-toggle", "d1-move", "d1-remove-readd"} {
		evs = append(evs, c14Event{Kind: "full-storefail", Arg: m})
	}
	for i := range c14Lookups {
		evs = append(evs, c14Event{Kind: "lookup", Idx: i})
	}
	for i := 0; i < len(sys.pending) && i < 3; i++ {
		evs = append(evs, c14Event{Kind: "run", Idx: i})
	}

	return evs
}

func TestVerifC14Hist(t *testing.T) {
	r := vrt.Start("C14")
	c14InstallHook()
	var rc c14Case
	if r.ReplayCase("history", &rc) {
		fs, _, _ := c14Run(r, rc, true)
		r.Eval()
		r.Report("history", rc, fs)
	}
	if r.ShouldRun() {
		depth := vrt.Pick(r, 5, 6)
		shard, nshards := r.NShards()
		// Breadth-first search with duplicate-state merging.  Every process
		// explores the full graph up to depth-1 deterministically and shares
		// the work of the last level by index.
		seen := map[string]bool{}
		frontier := []c14Case{{}}
		init := c14NewSys()
		seen[init.digest()] = true
		keys := map[string]int{}
		completed := 0
	levels:
		for level := 1; level <= depth; level++ {
			var next []c14Case
			idx := 0
			for _, h := range frontier {
				// The alphabet depends on the pending list of the state.
				_, hsys, _ := c14Run(r, h, false)
				for _, e := range c14Alphabet(hsys) {
					idx++
					last := level == depth
					if last && idx%nshards != shard {
						continue
					}
					if r.Expired() {
						r.Note("history search stopped by deadline at level %d", level)

						break levels
					}
					c := c14Case{Events: append(append([]c14Event{}, h.Events...), e)}
					fs, sys, ok := c14Run(r, c, false)
					if !ok {
						continue
					}
					if !last && shard != 0 {
						// Only shard 0 counts and reports the shared levels.
						if d := sys.digest(); !seen[d] {
							seen[d] = true
							next = append(next, c)
						}

						continue
					}
					r.Eval()
					_, obs := sys.observe()
					r.Class(fmt.Sprintf("pending=%d", len(sys.pending)))
					if len(fs) > 0 {
						if keys[fs[0].Key] < 2 {
							r.Report("history", c, fs)
						}
						keys[fs[0].Key]++

						continue // do not expand a violating state
					}
					d := sys.digest()
					if !seen[d] {
						seen[d] = true
						r.State(d)
						r.Sample(map[string]any{"history": c.Events, "lookups": obs})
						next = append(next, c)
					}
				}
			}
			frontier = next
			completed = level
		}
		r.Bound("history_depth", completed)
		r.Bound("history_frontier_at_last_level", len(frontier))
	}
	r.Finish()
	os.Exit(0)
}
