//go:build verif

package dnsserver

import (
	"bytes"
	"context"
	"encoding/binary"
	"fmt"
	"io"
	"net"
	"net/http"
	"net/http/httptest"
	"os"
	"runtime"
	"runtime/debug"
	"strings"
	"sync"
	"testing"
	"time"

	"github.com/AdguardTeam/AdGuardDNS/internal/dnsserver/zzverif/vrt"
	"github.com/miekg/dns"
	"github.com/quic-go/quic-go"
)

// ---- Messages --------------------------------------------------------------

func c06Pack(m *dns.Msg) []byte {
	b, err := m.Pack()
	if err != nil {
		panic(err)
	}

	return b
}

// c06Priors are the earlier, valid messages of other clients.
func c06Priors() (out [][]byte) {
	v1 := &dns.Msg{}
	v1.SetQuestion("secret-one.example.", dns.TypeA)
	v1.Id = 0x1111
	v2 := &dns.Msg{}
	v2.SetQuestion("a-rather-long-secret-name-of-another-client.two.example.", dns.TypeAAAA)
	v2.Id = 0x2222
	v2.SetEdns0(4096, true)
	v2.IsEdns0().Option = append(v2.IsEdns0().Option, &dns.EDNS0_COOKIE{Code: dns.EDNS0COOKIE, Cookie: "0123456789abcdef"})
	v3 := &dns.Msg{}
	v3.SetQuestion("secret-three.example.", dns.TypeTXT)
	v3.Id = 0x3333
	v3.SetEdns0(1232, false)
	v3.IsEdns0().Option = append(v3.IsEdns0().Option, &dns.EDNS0_PADDING{Padding: bytes.Repeat([]byte{0xAB}, 400)})
	// A message with records in every section, as a previous upstream reply
	// or an update-like client message would have.
	v4 := &dns.Msg{}
	v4.SetQuestion("secret-four.example.", dns.TypeA)
	v4.Id = 0x4444
	rr, _ := dns.NewRR("secret-four.example. 300 IN A 203.0.113.7")
	v4.Answer = []dns.RR{rr}
	ns, _ := dns.NewRR("example. 300 IN NS ns.secret-four.example.")
	v4.Ns = []dns.RR{ns}

	// The shortest exchange there is: whatever buffer served it has held only
	// a few dozen octets.
	v5 := &dns.Msg{}
	v5.SetQuestion("a.", dns.TypeA)
	v5.Id = 0x5555

	return [][]byte{c06Pack(v1), c06Pack(v2), c06Pack(v3), c06Pack(v4), c06Pack(v5)}
}

// c06Probes returns the next messages: short or inconsistent ones, and a
// valid one.
func c06Probes(thorough bool) (out [][]byte) {
	q := &dns.Msg{}
	q.SetQuestion("probe.example.", dns.TypeA)
	q.Id = 0x7777
	full := c06Pack(q)
	hdr := func(qd, an, ns, ar uint16) []byte {
		b := make([]byte, 12)
		binary.BigEndian.PutUint16(b[0:], 0x7777)
		b[2] = 0x01 // RD
		binary.BigEndian.PutUint16(b[4:], qd)
		binary.BigEndian.PutUint16(b[6:], an)
		binary.BigEndian.PutUint16(b[8:], ns)
		binary.BigEndian.PutUint16(b[10:], ar)

		return b
	}
	withCounts := func(an, ns, ar uint16) []byte {
		b := append([]byte{}, full...)
		binary.BigEndian.PutUint16(b[6:], an)
		binary.BigEndian.PutUint16(b[8:], ns)
		binary.BigEndian.PutUint16(b[10:], ar)

		return b
	}
	// A valid query that is longer than the earlier messages and their
	// responses.
	long := &dns.Msg{}
	long.SetQuestion(strings.Repeat("x", 60)+"."+strings.Repeat("y", 60)+"."+strings.Repeat("z", 60)+".probe.example.", dns.TypeA)
	long.Id = 0x7778
	// Valid queries longer than the default size of the pooled read buffers
	// (512 octets), which have to be grown for them.
	big := func(id uint16, pad int) []byte {
		m := &dns.Msg{}
		m.SetQuestion("big.probe.example.", dns.TypeA)
		m.Id = id
		m.SetEdns0(1232, false)
		// Not a padding option: responses to padded queries get a padding of
		// random length on the encrypted transports.
		m.IsEdns0().Option = append(m.IsEdns0().Option, &dns.EDNS0_LOCAL{Code: 65001, Data: bytes.Repeat([]byte{0x5A}, pad)})

		return c06Pack(m)
	}
	out = append(out, big(0x7779, 700), big(0x777a, 513-len(big(0, 0))))
	out = append(out,
		c06Pack(long),       // valid long query
		full,                // valid minimal query
		hdr(1, 0, 0, 0),     // header only, declares one question
		full[:12+6],         // header + half a name
		withCounts(1, 0, 0), // complete question, declares an answer it does not carry
		withCounts(0, 0, 1), // declares an additional (OPT) record it does not carry
		withCounts(0, 1, 0), // declares an authority record
		hdr(2, 0, 0, 0),     // header only, two questions
		full[:len(full)-1],  // cut in the qclass
	)
	if thorough {
		for cut := 12; cut < len(full); cut++ {
			out = append(out, full[:cut])
		}
		for _, c := range [][3]uint16{{1, 1, 1}, {2, 0, 0}, {0, 2, 0}, {0, 0, 2}, {2, 2, 2}, {0xffff, 0, 0}} {
			out = append(out, withCounts(c[0], c[1], c[2]))
		}
		out = append(out, hdr(1, 1, 0, 0), hdr(0, 1, 0, 0), hdr(0, 0, 0, 1), hdr(1, 0, 0, 1))
	}

	return out
}

// ---- Handler and fakes -----------------------------------------------------

// c06Handler records what the server decoded and answers with a reply built
// from the decoded request only.
type c06Handler struct {
	mu   sync.Mutex
	seen []string
}

func (h *c06Handler) ServeDNS(ctx context.Context, rw ResponseWriter, req *dns.Msg) error {
	h.mu.Lock()
	h.seen = append(h.seen, c06MsgString(req))
	h.mu.Unlock()
	resp := &dns.Msg{}
	resp.SetReply(req)
	resp.Answer, resp.Ns, resp.Extra = req.Answer, req.Ns, nil

	return rw.WriteMsg(ctx, req, resp)
}

func c06MsgString(m *dns.Msg) string {
	if m == nil {
		return "<nil>"
	}

	return strings.Join(strings.Fields(m.String()), " ")
}

type c06PacketConn struct {
	in      []byte
	written [][]byte
}

func (c *c06PacketConn) ReadFrom(p []byte) (int, net.Addr, error) {
	if c.in == nil {
		return 0, nil, io.EOF
	}
	n := copy(p, c.in)
	c.in = nil

	return n, &net.UDPAddr{IP: net.IP{192, 0, 2, 9}, Port: 4000}, nil
}

func (c *c06PacketConn) WriteTo(p []byte, _ net.Addr) (int, error) {
	c.written = append(c.written, append([]byte{}, p...))

	return len(p), nil
}
func (c *c06PacketConn) Close() error                     { return nil }
func (c *c06PacketConn) LocalAddr() net.Addr              { return &net.UDPAddr{IP: net.IP{127, 0, 0, 1}, Port: 53} }
func (c *c06PacketConn) SetDeadline(time.Time) error      { return nil }
func (c *c06PacketConn) SetReadDeadline(time.Time) error  { return nil }
func (c *c06PacketConn) SetWriteDeadline(time.Time) error { return nil }

type c06Conn struct {
	r       *bytes.Reader
	written bytes.Buffer
	closed  bool
}

func (c *c06Conn) Read(p []byte) (int, error)       { return c.r.Read(p) }
func (c *c06Conn) Write(p []byte) (int, error)      { return c.written.Write(p) }
func (c *c06Conn) Close() error                     { c.closed = true; return nil }
func (c *c06Conn) LocalAddr() net.Addr              { return &net.TCPAddr{IP: net.IP{127, 0, 0, 1}, Port: 53} }
func (c *c06Conn) RemoteAddr() net.Addr             { return &net.TCPAddr{IP: net.IP{192, 0, 2, 9}, Port: 4000} }
func (c *c06Conn) SetDeadline(time.Time) error      { return nil }
func (c *c06Conn) SetReadDeadline(time.Time) error  { return nil }
func (c *c06Conn) SetWriteDeadline(time.Time) error { return nil }

type c06Stream struct {
	quic.Stream
	r *bytes.Reader
	w bytes.Buffer
}

func (s *c06Stream) Read(p []byte) (int, error)      { return s.r.Read(p) }
func (s *c06Stream) Write(p []byte) (int, error)     { return s.w.Write(p) }
func (s *c06Stream) Close() error                    { return nil }
func (s *c06Stream) SetReadDeadline(time.Time) error { return nil }

// c06QUICConn is the connection a DoQ stream belongs to: it records whether
// the server closed it with an error.
type c06QUICConn struct {
	quic.Connection
	streams []quic.Stream
	closed  string
}

// AcceptStream hands out the scripted streams, then reports that the peer has
// closed the connection.
func (c *c06QUICConn) AcceptStream(context.Context) (quic.Stream, error) {
	if len(c.streams) == 0 {
		return nil, &quic.ApplicationError{Remote: true, ErrorCode: 0}
	}
	st := c.streams[0]
	c.streams = c.streams[1:]

	return st, nil
}
func (c *c06QUICConn) ConnectionState() quic.ConnectionState { return quic.ConnectionState{} }
func (c *c06QUICConn) LocalAddr() net.Addr                   { return &net.UDPAddr{IP: net.IP{127, 0, 0, 1}, Port: 853} }
func (c *c06QUICConn) RemoteAddr() net.Addr {
	return &net.UDPAddr{IP: net.IP{192, 0, 2, 9}, Port: 4000}
}
func (c *c06QUICConn) CloseWithError(code quic.ApplicationErrorCode, _ string) error {
	c.closed = fmt.Sprintf("closed(%d)", code)

	return nil
}

// ---- Paths -----------------------------------------------------------------

// c06Path feeds one message to a server over one receive path and returns
// the observation.
type c06Path interface {
	feed(msg []byte) string
	// release stops the goroutines of the server's worker pool.
	release()
}

func (p *c06UDP) release() { p.s.workerPool.Release() }
func (p *c06TCP) release() { p.s.workerPool.Release() }
func (p *c06DoQ) release() { p.s.pool.Release() }
func (p *c06DoH) release() {}

// c06ServeTCPConn runs the real connection loop of the server (with its
// recover, its wait for the workers and its close) on a connection that
// carries what conn delivers and then ends.  The loop is the seam, not the
// per-message functions below it, whose signatures are an internal matter.
func c06ServeTCPConn(s *ServerDNS, conn net.Conn) {
	s.wg.Add(1)
	s.serveTCPConn(context.Background(), conn)
	c06Wait(s)
}

func c06Wait(s *ServerDNS) {
	s.wg.Wait()
	// Let the worker goroutine return its buffer to the pool: with a single
	// P it runs until it parks in the worker pool again.
	for i := 0; i < 20; i++ {
		runtime.Gosched()
	}
}

type c06UDP struct {
	s *ServerDNS
	h *c06Handler
}

func newC06DNS() (*ServerDNS, *c06Handler) {
	h := &c06Handler{}
	s := NewServerDNS(ConfigDNS{ConfigBase: ConfigBase{Name: "verif", Addr: "127.0.0.1:0", Handler: h}, MaxUDPRespSize: 4096})
	s.started = true

	return s, h
}

func (p *c06UDP) feed(msg []byte) string {
	before := len(p.h.seen)
	conn := &c06PacketConn{in: msg}
	err := p.s.acceptUDPMsg(context.Background(), conn)
	c06Wait(p.s)

	return fmt.Sprintf("err=%v decoded=%q written=%x", err != nil, p.h.seen[before:], conn.written)
}

type c06TCP struct {
	s *ServerDNS
	h *c06Handler
}

func (p *c06TCP) feed(msg []byte) string {
	before := len(p.h.seen)
	framed := make([]byte, 2+len(msg))
	binary.BigEndian.PutUint16(framed, uint16(len(msg)))
	copy(framed[2:], msg)
	conn := &c06Conn{r: bytes.NewReader(framed)}
	c06ServeTCPConn(p.s, conn)

	return fmt.Sprintf("decoded=%q written=%x", p.h.seen[before:], conn.written.Bytes())
}

// c06TCPShort declares a longer frame than it carries.
type c06TCPShort struct{ c06TCP }

func (p *c06TCPShort) feed(msg []byte) string {
	before := len(p.h.seen)
	framed := make([]byte, 2+len(msg))
	binary.BigEndian.PutUint16(framed, uint16(len(msg)+20))
	copy(framed[2:], msg)
	conn := &c06Conn{r: bytes.NewReader(framed)}
	c06ServeTCPConn(p.s, conn)

	return fmt.Sprintf("decoded=%q written=%x", p.h.seen[before:], conn.written.Bytes())
}

type c06DoQ struct {
	s *ServerQUIC
	// extra is added to the length prefix of the probe: the stream then ends
	// before (or after) the announced number of octets.
	extra   int
	fed     int
	probeAt int
}

func (p *c06DoQ) feed(msg []byte) string {
	framed := make([]byte, 2+len(msg))
	pfx := len(msg)
	if p.extra != 0 && p.fed >= p.probeAt {
		pfx += p.extra
	}
	p.fed++
	binary.BigEndian.PutUint16(framed, uint16(pfx))
	copy(framed[2:], msg)
	// The stream is served by the real serveQUICConn (one connection whose
	// only stream carries the message): what the handler decoded, what was
	// written back and how the connection was closed.
	h := p.s.handler.(*c06Handler)
	before := len(h.seen)
	st := &c06Stream{r: bytes.NewReader(framed)}
	conn := &c06QUICConn{streams: []quic.Stream{st}}
	p.s.started = true
	ctx := ContextWithServerInfo(context.Background(), &ServerInfo{Name: "verif", Addr: "127.0.0.1:853", Proto: ProtoDoQ})
	_ = p.s.serveQUICConn(ctx, conn)

	return fmt.Sprintf("decoded=%q written=%x %s", h.seen[before:], st.w.Bytes(), conn.closed)
}

type c06DoH struct {
	s *ServerHTTPS
	h *c06Handler
}

func (p *c06DoH) feed(msg []byte) string {
	before := len(p.h.seen)
	req := httptest.NewRequest(http.MethodPost, "https://dns.example/dns-query", bytes.NewReader(msg))
	req.Header.Set("Content-Type", MimeTypeDoH)
	req.RemoteAddr = "192.0.2.9:4000"
	rec := httptest.NewRecorder()
	hh := &httpHandler{srv: p.s, localAddr: &net.TCPAddr{IP: net.IP{127, 0, 0, 1}, Port: 443}}
	hh.ServeHTTP(rec, req)

	return fmt.Sprintf("status=%d decoded=%q body=%x", rec.Code, p.h.seen[before:], rec.Body.Bytes())
}

var c06PathNames = []string{"udp", "tcp", "tcp-short-frame", "doq", "doh-post", "doq-prefix+1", "doq-prefix+19", "doq-prefix+150", "doq-prefix-3"}

func c06NewPath(name string) c06Path {
	switch name {
	case "udp":
		s, h := newC06DNS()

		return &c06UDP{s: s, h: h}
	case "tcp":
		s, h := newC06DNS()

		return &c06TCP{s: s, h: h}
	case "tcp-short-frame":
		s, h := newC06DNS()

		return &c06TCPShort{c06TCP{s: s, h: h}}
	case "doq":
		return &c06DoQ{s: NewServerQUIC(ConfigQUIC{ConfigBase: ConfigBase{Name: "verif", Addr: "127.0.0.1:0", Handler: &c06Handler{}}})}
	case "doq-prefix+1", "doq-prefix+19", "doq-prefix+150", "doq-prefix-3":
		var extra int
		fmt.Sscanf(strings.TrimPrefix(name, "doq-prefix"), "%d", &extra)

		return &c06DoQ{s: NewServerQUIC(ConfigQUIC{ConfigBase: ConfigBase{Name: "verif", Addr: "127.0.0.1:0", Handler: &c06Handler{}}}), extra: extra, probeAt: -1}
	case "doh-post":
		h := &c06Handler{}

		return &c06DoH{s: NewServerHTTPS(ConfigHTTPS{ConfigBase: ConfigBase{Name: "verif", Addr: "127.0.0.1:0", Handler: h}}), h: h}
	}
	panic(name)
}

type c06Case struct {
	Path   string `json:"path"`
	Priors []int  `json:"priors"`
	Probe  int    `json:"probe"`
	// ProbeHex is informational.
	ProbeHex string `json:"probe_hex"`
}

func TestVerifC06Server(t *testing.T) {
	// The unit also serves C07 (recycled receive buffers never let one client
	// see another client's query): the driver then sets VERIF_PROP.
	prop := "C06"
	if p := os.Getenv("VERIF_PROP"); p != "" {
		prop = p
	}
	r := vrt.Start(prop)
	debug.SetGCPercent(-1) // keep sync.Pool contents: reuse is then LIFO and deterministic (GOMAXPROCS=1)
	priors := c06Priors()
	probes := c06Probes(r.Thorough())
	maxPriors := vrt.Pick(r, 2, 3)
	r.Bound("server_max_prior_messages", maxPriors)
	r.Bound("server_probes", len(probes))
	n := 0
	vrt.Part(r, "server", func(emit func(c06Case)) {
		for _, path := range c06PathNames {
			vrt.Sequences(len(priors), 0, maxPriors, func(seq []int) {
				for pi := range probes {
					emit(c06Case{Path: path, Priors: append([]int{}, seq...), Probe: pi, ProbeHex: fmt.Sprintf("%x", probes[pi])})
				}
			})
		}
	}, func(c c06Case) []vrt.Finding {
		n++
		if n%200 == 0 {
			runtime.GC()
		}
		warm := c06NewPath(c.Path)
		if dq, ok := warm.(*c06DoQ); ok {
			dq.probeAt = len(c.Priors)
		}
		for _, pi := range c.Priors {
			warm.feed(priors[pi])
		}
		got := warm.feed(probes[c.Probe])
		warm.release()
		fresh := c06NewPath(c.Path)
		if dq, ok := fresh.(*c06DoQ); ok {
			dq.probeAt = 0
		}
		want := fresh.feed(probes[c.Probe])
		fresh.release()
		r.Trans(len(c.Priors) + 2)
		r.Class(c.Path + " " + strings.SplitN(want, " ", 2)[0])
		r.State(c.Path + want)
		if got != want {
			leak := ""
			for _, s := range []string{"secret", "203.0.113.7"} {
				if strings.Contains(got, s) || strings.Contains(got, fmt.Sprintf("%x", s)) {
					leak = " (contains data of an earlier message)"
				}
			}

			return vrt.F("decode-depends-on-history/"+c.Path, "path %s, probe %x after %d earlier messages%s:\n   warmed server: %s\n   fresh server : %s", c.Path, probes[c.Probe], len(c.Priors), leak, got, want)
		}

		return nil
	})
	// One plain-DNS server object receives over UDP and TCP: histories that
	// mix the two, among them TCP frames that end before their announced
	// length (the read-error path), then a probe over either.
	type mixedEvent struct {
		kind string // "udp", "tcp", "tcp-cut"
		msg  int    // index into priors; for "tcp-cut" the announced length
	}
	var mixedAlpha []mixedEvent
	for i := range priors {
		mixedAlpha = append(mixedAlpha, mixedEvent{"udp", i}, mixedEvent{"tcp", i})
	}
	for _, l := range []int{1, 12, 20, 40} {
		mixedAlpha = append(mixedAlpha, mixedEvent{"tcp-cut", l})
	}
	mixedFeed := func(s *ServerDNS, h *c06Handler, kind string, msg []byte, announced int) string {
		switch kind {
		case "udp":
			return (&c06UDP{s: s, h: h}).feed(msg)
		case "tcp":
			return (&c06TCP{s: s, h: h}).feed(msg)
		default:
			// The frame announces `announced` octets and carries 3.
			framed := []byte{byte(announced >> 8), byte(announced), 0xab, 0xcd, 0x01}
			conn := &c06Conn{r: bytes.NewReader(framed)}
			c06ServeTCPConn(s, conn)

			return fmt.Sprintf("written=%x", conn.written.Bytes())
		}
	}
	maxMixed := vrt.Pick(r, 2, 3)
	r.Bound("server_mixed_max_prior_events", maxMixed)
	vrt.Part(r, "server-mixed", func(emit func(c06MixedCase)) {
		vrt.Sequences(len(mixedAlpha), 1, maxMixed, func(seq []int) {
			for _, pk := range []string{"udp", "tcp"} {
				for pi := range probes {
					emit(c06MixedCase{Priors: append([]int{}, seq...), ProbeOver: pk, Probe: pi, ProbeHex: fmt.Sprintf("%x", probes[pi])})
				}
			}
		})
	}, func(c c06MixedCase) []vrt.Finding {
		n++
		if n%200 == 0 {
			runtime.GC()
		}
		ws, wh := newC06DNS()
		var hist []string
		for _, ei := range c.Priors {
			e := mixedAlpha[ei]
			if e.kind == "tcp-cut" {
				mixedFeed(ws, wh, e.kind, nil, e.msg)
				hist = append(hist, fmt.Sprintf("tcp frame announcing %d octets, cut after 3", e.msg))
			} else {
				mixedFeed(ws, wh, e.kind, priors[e.msg], 0)
				hist = append(hist, fmt.Sprintf("%s message %d", e.kind, e.msg))
			}
			// A second message over UDP makes the pools hand the same buffer
			// out again, as a busy server does.
		}
		got := mixedFeed(ws, wh, c.ProbeOver, probes[c.Probe], 0)
		got2 := mixedFeed(ws, wh, c.ProbeOver, probes[c.Probe], 0)
		ws.workerPool.Release()
		fs, fh := newC06DNS()
		want := mixedFeed(fs, fh, c.ProbeOver, probes[c.Probe], 0)
		fs.workerPool.Release()
		r.Trans(len(c.Priors) + 3)
		r.Class("mixed " + c.ProbeOver + " " + strings.SplitN(want, " ", 2)[0])
		r.State("mixed" + c.ProbeOver + want)
		for _, g := range []string{got, got2} {
			if g != want {
				return vrt.F("decode-depends-on-history/mixed-"+c.ProbeOver, "probe %x over %s after %v on the same server:\n   warmed server: %s\n   fresh server : %s", probes[c.Probe], c.ProbeOver, hist, g, want)
			}
		}

		return nil
	})
	// Two streams of one DoQ connection whose reads interleave.
	vrt.Part(r, "doq-interleaved", func(emit func(c06InterCase)) {
		for a := range priors {
			for b := range priors {
				if a == b {
					continue
				}
				for _, cut := range []int{1, 2, 3, 14, len(priors[a]) + 1} {
					emit(c06InterCase{A: a, B: b, Cut: cut})
				}
			}
		}
	}, func(c c06InterCase) []vrt.Finding {
		r.Trans(2)
		r.Class("doq-interleaved")
		r.State(fmt.Sprint("inter", c.A, c.B, c.Cut))

		return c06DoQInterleaved(priors[c.A], priors[c.B], c.Cut)
	})
	r.Finish()
	os.Exit(0)
}

// c06GatedStream delivers its octets in two parts; the second part (and the
// end of the stream) is held back until gate is closed.
type c06GatedStream struct {
	quic.Stream
	first, rest []byte
	gate        chan struct{}
	onClose     func()
	w           bytes.Buffer
	state       int
}

func (s *c06GatedStream) Read(p []byte) (int, error) {
	switch s.state {
	case 0:
		n := copy(p, s.first)
		s.first = s.first[n:]
		if len(s.first) == 0 {
			s.state = 1
		}

		return n, nil
	case 1:
		if s.gate != nil {
			<-s.gate
		}
		n := copy(p, s.rest)
		s.rest = s.rest[n:]
		if len(s.rest) == 0 {
			s.state = 2
		}

		return n, nil
	default:
		return 0, io.EOF
	}
}
func (s *c06GatedStream) Write(p []byte) (int, error) { return s.w.Write(p) }
func (s *c06GatedStream) Close() error {
	if s.onClose != nil {
		s.onClose()
		s.onClose = nil
	}

	return nil
}
func (s *c06GatedStream) SetReadDeadline(time.Time) error { return nil }

// c06DoQInterleaved serves two streams of ONE connection: the query on the
// first stream arrives only in part, then the complete query of the second
// stream is read and answered, then the rest of the first one arrives.  The
// response on each stream must answer the query of that stream.
func c06DoQInterleaved(qa, qb []byte, cut int) (fs []vrt.Finding) {
	frame := func(m []byte) []byte {
		f := make([]byte, 2+len(m))
		binary.BigEndian.PutUint16(f, uint16(len(m)))
		copy(f[2:], m)

		return f
	}
	h := &c06Handler{}
	s := NewServerQUIC(ConfigQUIC{ConfigBase: ConfigBase{Name: "verif", Addr: "127.0.0.1:0", Handler: h}})
	s.started = true
	defer s.pool.Release()
	fa := frame(qa)
	gate := make(chan struct{})
	var once sync.Once
	stA := &c06GatedStream{first: fa[:cut], rest: fa[cut:], gate: gate}
	stB := &c06GatedStream{first: frame(qb), onClose: func() { once.Do(func() { close(gate) }) }}
	conn := &c06QUICConn{streams: []quic.Stream{stA, stB}}
	ctx := ContextWithServerInfo(context.Background(), &ServerInfo{Name: "verif", Addr: "127.0.0.1:853", Proto: ProtoDoQ})
	done := make(chan struct{})
	go func() {
		_ = s.serveQUICConn(ctx, conn)
		close(done)
	}()
	select {
	case <-done:
	case <-time.After(60 * time.Second):
		// Stream B was never finished, so stream A is still waiting.
		once.Do(func() { close(gate) })
		<-done

		return vrt.F("doq-interleaved/second-stream-not-served-while-first-is-incomplete", "the query on the second stream of a connection was not answered while the first stream was still incomplete")
	}
	for _, x := range []struct {
		name string
		q    []byte
		st   *c06GatedStream
	}{{"first", qa, stA}, {"second", qb, stB}} {
		want := &dns.Msg{}
		_ = want.Unpack(x.q)
		w := x.st.w.Bytes()
		got := &dns.Msg{}
		if len(w) < 2 || got.Unpack(w[2:]) != nil {
			return vrt.F("doq-interleaved/no-decodable-response", "the %s stream (query %s, first part of %d octets held apart from the rest) received %x", x.name, want.Question[0].Name, cut, w)
		}
		if len(got.Question) != 1 || got.Question[0].Name != want.Question[0].Name || got.Question[0].Qtype != want.Question[0].Qtype {
			return vrt.F("doq-interleaved/response-answers-another-streams-query", "the %s stream asked %s and received a response for %v (first stream cut after %d octets; the other stream's query was read in between)", x.name, want.Question[0].Name, got.Question, cut)
		}
	}

	return nil
}

type c06InterCase struct {
	A   int `json:"first_stream_query"`
	B   int `json:"second_stream_query"`
	Cut int `json:"first_part_octets"`
}

type c06MixedCase struct {
	Priors    []int  `json:"prior_events"`
	ProbeOver string `json:"probe_over"`
	Probe     int    `json:"probe"`
	ProbeHex  string `json:"probe_hex"`
}
