//go:build verif

package dnsserver

import (
	"context"
	"fmt"
	"io"
	"net"
	"os"
	"runtime"
	"runtime/debug"
	"testing"
	"time"

	"github.com/AdguardTeam/AdGuardDNS/internal/dnsserver/zzverif/vrt"
	"github.com/AdguardTeam/AdGuardDNS/internal/dnsserver/zzverif/xsched"
	"github.com/miekg/dns"
)

// The accept loop reads the next datagram while the workers of earlier ones
// may not have run yet: each query must still be decoded from its own bytes
// and each client must get the answer to its own question.

type c06rConn struct {
	in      [][]byte
	from    []net.Addr
	written map[string][][]byte
}

func (c *c06rConn) ReadFrom(p []byte) (int, net.Addr, error) {
	if len(c.in) == 0 {
		return 0, nil, io.EOF
	}
	n := copy(p, c.in[0])
	a := c.from[0]
	c.in, c.from = c.in[1:], c.from[1:]

	return n, a, nil
}

func (c *c06rConn) WriteTo(p []byte, a net.Addr) (int, error) {
	c.written[a.String()] = append(c.written[a.String()], append([]byte{}, p...))

	return len(p), nil
}
func (c *c06rConn) Close() error                     { return nil }
func (c *c06rConn) LocalAddr() net.Addr              { return &net.UDPAddr{IP: net.IP{127, 0, 0, 1}, Port: 53} }
func (c *c06rConn) SetDeadline(time.Time) error      { return nil }
func (c *c06rConn) SetReadDeadline(time.Time) error  { return nil }
func (c *c06rConn) SetWriteDeadline(time.Time) error { return nil }

type c06rEnv struct {
	conn *c06rConn
	n    int
}

func c06rQuery(i int) (*dns.Msg, net.Addr) {
	m := &dns.Msg{}
	// Names of different lengths, so that a later datagram does not simply
	// overwrite an earlier one completely.
	name := fmt.Sprintf("client-%d-%s.example.", i, "xxxxxxxxxxxxxxxxxxxxxxxx"[:4*(3-i)])
	m.SetQuestion(name, dns.TypeA)
	m.Id = uint16(0x1000 * (i + 1))

	return m, &net.UDPAddr{IP: net.IP{192, 0, 2, byte(10 + i)}, Port: 4000 + i}
}

func c06rSetup(n int, s *xsched.Sched) *c06rEnv {
	h := &c06Handler{}
	srv := NewServerDNS(ConfigDNS{ConfigBase: ConfigBase{Name: "verif", Addr: "127.0.0.1:0", Handler: h}, MaxUDPRespSize: 4096})
	srv.started = true
	srv.workerPool.Release()
	env := &c06rEnv{conn: &c06rConn{written: map[string][][]byte{}}, n: n}
	for i := 0; i < n; i++ {
		m, a := c06rQuery(i)
		b, _ := m.Pack()
		env.conn.in = append(env.conn.in, b)
		env.conn.from = append(env.conn.from, a)
	}
	s.Go("accept-loop", func() {
		for i := 0; i < n; i++ {
			_ = srv.acceptUDPMsg(context.Background(), env.conn)
		}
	})

	return env
}

func c06rCheck(env *c06rEnv, x *xsched.Exec) []vrt.Finding {
	if x.Sched.Panicked != "" {
		return vrt.F("udp-race/panic", "%s", x.Sched.Panicked)
	}
	if x.Sched.Deadlock || x.Sched.LimitHit {
		return vrt.F("udp-race/deadlock", "blocked %v", x.Sched.Blocked)
	}
	for i := 0; i < env.n; i++ {
		q, a := c06rQuery(i)
		ws := env.conn.written[a.String()]
		if len(ws) != 1 {
			return vrt.F("udp-race/client-not-answered-once", "client %d (%s) received %d responses\nschedule:\n%s", i, a, len(ws), x.Sched.Describe())
		}
		m := &dns.Msg{}
		if err := m.Unpack(ws[0]); err != nil {
			return vrt.F("udp-race/undecodable-response", "client %d: %v", i, err)
		}
		if m.Id != q.Id || len(m.Question) != 1 || m.Question[0].Name != q.Question[0].Name {
			return vrt.F("udp-race/response-carries-another-clients-query", "client %d asked %s (id %#x) and received a response with id %#x for %v: its datagram was decoded from a buffer already reused for a later datagram\nschedule:\n%s", i, q.Question[0].Name, q.Id, m.Id, m.Question, x.Sched.Describe())
		}
	}

	return nil
}

type c06rCase struct {
	N       int   `json:"datagrams"`
	Choices []int `json:"choices"`
}

func TestVerifC06UDPRace(t *testing.T) {
	r := vrt.Start("C06")
	debug.SetGCPercent(-1)
	var rc c06rCase
	if r.ReplayCase("udp-race", &rc) {
		var env *c06rEnv
		x := xsched.Replay(rc.Choices, func(s *xsched.Sched) { env = c06rSetup(rc.N, s) })
		r.Eval()
		r.Report("udp-race", rc, c06rCheck(env, x))
	}
	if r.ShouldRun() {
		shard, nshards := r.NShards()
		execs := 0
		pre := vrt.Pick(r, 3, -1)
		r.Bound("udp_race_preemptions", vrt.Pick(r, "3", "unbounded"))
		for ni, n := range []int{2, 3} {
			if ni%nshards != shard {
				continue
			}
			var env *c06rEnv
			found := 0
			st := xsched.Explore(xsched.Config{MaxPreemptions: pre, MaxDeviations: 0, Stop: r.Expired},
				func(s *xsched.Sched) {
					if execs++; execs%2000 == 0 {
						runtime.GC()
					}
					env = c06rSetup(n, s)
				},
				func(x *xsched.Exec) bool {
					r.Eval()
					r.Trans(len(x.Sched.Trace))
					fs := c06rCheck(env, x)
					r.Class(fmt.Sprintf("udp-race %d datagrams", n))
					r.State(fmt.Sprintf("udp-race %d %v", n, x.Preemptions))
					if len(fs) > 0 {
						r.Report("udp-race", c06rCase{N: n, Choices: x.Choices}, fs)
						found++
					}

					return found < 1
				})
			if st.Stopped {
				r.Note("udp race n=%d stopped by deadline after %d executions", n, st.Executions)
			}
		}
	}
	r.Finish()
	os.Exit(0)
}
