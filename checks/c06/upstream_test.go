//go:build verif

package forward

import (
	"bytes"
	"context"
	"encoding/binary"
	"fmt"
	"io"
	"net"
	"net/netip"
	"os"
	"runtime"
	"runtime/debug"
	"strings"
	"syscall"
	"testing"
	"time"

	"github.com/AdguardTeam/AdGuardDNS/internal/dnsserver/pool"
	"github.com/AdguardTeam/AdGuardDNS/internal/dnsserver/zzverif/vrt"
	"github.com/miekg/dns"
)

// c06uConn is an in-memory upstream connection: it answers the next request
// with the scripted reply bytes.
type c06uConn struct {
	tcp   bool
	reply []byte
	rd    *bytes.Reader
	// fail, if set, is what every Read returns.
	fail error
}

func (c *c06uConn) Write(p []byte) (int, error) {
	b := c.reply
	if c.tcp {
		f := make([]byte, 2+len(b))
		binary.BigEndian.PutUint16(f, uint16(len(b)))
		copy(f[2:], b)
		b = f
	}
	c.rd = bytes.NewReader(b)

	return len(p), nil
}

func (c *c06uConn) Read(p []byte) (int, error) {
	if c.fail != nil {
		return 0, c.fail
	}
	if c.rd == nil {
		return 0, io.EOF
	}

	return c.rd.Read(p)
}
func (c *c06uConn) Close() error                     { return nil }
func (c *c06uConn) LocalAddr() net.Addr              { return &net.UDPAddr{} }
func (c *c06uConn) RemoteAddr() net.Addr             { return &net.UDPAddr{} }
func (c *c06uConn) SetDeadline(time.Time) error      { return nil }
func (c *c06uConn) SetReadDeadline(time.Time) error  { return nil }
func (c *c06uConn) SetWriteDeadline(time.Time) error { return nil }

type c06uRig struct {
	u    *UpstreamPlain
	conn *c06uConn
}

func c06uNew(network Network) *c06uRig {
	r := &c06uRig{conn: &c06uConn{tcp: network == NetworkTCP}}
	r.u = NewUpstreamPlain(&UpstreamPlainConfig{Network: network, Address: netip.MustParseAddrPort("192.0.2.53:53"), Timeout: time.Second})
	f := func(_ context.Context) (net.Conn, error) { return r.conn, nil }
	r.u.connsPoolUDP = pool.NewPool(4, f)
	r.u.connsPoolTCP = pool.NewPool(4, f)

	return r
}

// exchange sends a query for name and scripts the reply bytes.
func (r *c06uRig) exchange(name string, id uint16, reply []byte) string {
	req := &dns.Msg{}
	req.SetQuestion(name, dns.TypeA)
	req.Id = id
	r.conn.reply = reply
	resp, _, err := r.u.Exchange(context.Background(), req)
	if err != nil {
		return "err"
	}

	return strings.Join(strings.Fields(resp.String()), " ")
}

func c06uReply(name string, id uint16, addr string) []byte {
	m := &dns.Msg{}
	m.SetQuestion(name, dns.TypeA)
	m.Id = id
	m.Response = true
	rr, _ := dns.NewRR(fmt.Sprintf("%s 300 IN A %s", name, addr))
	m.Answer = []dns.RR{rr}
	ns, _ := dns.NewRR(fmt.Sprintf("example. 300 IN NS ns.%s", name))
	m.Ns = []dns.RR{ns}
	b, err := m.Pack()
	if err != nil {
		panic(err)
	}

	return b
}

type c06uCase struct {
	Network string `json:"network"`
	Priors  []int  `json:"priors"`
	Probe   int    `json:"probe"`
	Hex     string `json:"probe_reply_hex"`
}

func TestVerifC06Upstream(t *testing.T) {
	r := vrt.Start("C06")
	debug.SetGCPercent(-1)
	// Earlier exchanges of other clients.
	priorNames := []string{"victim-a.example.", "victim-b-with-a-much-longer-name.example.", "v.example."}
	priorAddrs := []string{"203.0.113.7", "203.0.113.8", "203.0.113.9"}
	// Probe replies to a query for probe-xx.example.: the complete reply cut
	// at every length, and replies whose header announces more than they carry.
	const probeName = "probe-xx.example."
	full := c06uReply(probeName, 0x7777, "198.51.100.1")
	var probes [][]byte
	q := &dns.Msg{}
	q.SetQuestion(probeName, dns.TypeA)
	q.Id = 0x7777
	q.Response = true
	qb, _ := q.Pack()
	for _, c := range [][3]uint16{{1, 0, 0}, {0, 1, 0}, {0, 0, 1}, {2, 2, 2}} {
		b := append([]byte{}, qb...)
		binary.BigEndian.PutUint16(b[6:], c[0])
		binary.BigEndian.PutUint16(b[8:], c[1])
		binary.BigEndian.PutUint16(b[10:], c[2])
		probes = append(probes, b)
	}
	step := vrt.Pick(r, 7, 1)
	for cut := len(qb); cut <= len(full); cut += step {
		probes = append(probes, full[:cut])
	}
	probes = append(probes, full)
	maxPriors := vrt.Pick(r, 2, 3)
	r.Bound("upstream_max_prior_exchanges", maxPriors)
	r.Bound("upstream_probe_replies", len(probes))
	n := 0
	vrt.Part(r, "upstream", func(emit func(c06uCase)) {
		for _, nw := range []string{"udp", "tcp"} {
			vrt.Sequences(len(priorNames), 0, maxPriors, func(seq []int) {
				for pi := range probes {
					emit(c06uCase{Network: nw, Priors: append([]int{}, seq...), Probe: pi, Hex: fmt.Sprintf("%x", probes[pi])})
				}
			})
		}
	}, func(c c06uCase) []vrt.Finding {
		n++
		if n%500 == 0 {
			runtime.GC()
		}
		nw := NetworkUDP
		if c.Network == "tcp" {
			nw = NetworkTCP
		}
		warm := c06uNew(nw)
		for i, pi := range c.Priors {
			warm.exchange(priorNames[pi], uint16(0x1000+i), c06uReply(priorNames[pi], uint16(0x1000+i), priorAddrs[pi]))
		}
		got := warm.exchange(probeName, 0x7777, probes[c.Probe])
		want := c06uNew(nw).exchange(probeName, 0x7777, probes[c.Probe])
		r.Trans(len(c.Priors) + 2)
		cls := "accepted"
		if want == "err" {
			cls = "rejected"
		}
		r.Class("upstream-" + c.Network + " " + cls)
		r.State(c.Network + want)
		if got != want {
			leak := ""
			if strings.Contains(got, "victim") || strings.Contains(got, "203.0.113.") || strings.Contains(got, "v.example") {
				leak = " (contains data of an earlier exchange)"
			}

			return vrt.F("decode-depends-on-history/upstream-"+c.Network, "upstream %s reply %x to a query for %s after %d earlier exchanges%s:\n   warmed upstream: %s\n   fresh upstream : %s", c.Network, probes[c.Probe], probeName, len(c.Priors), leak, got, want)
		}

		return nil
	})
	// Network "any": UDP first, TCP when the UDP reply is truncated or not a
	// valid reply to this query.  Every combination of what the UDP socket
	// delivers (among them a datagram that answers an EARLIER query of another
	// client, as a reused socket can deliver) and of how the TCP fall-back ends.
	// Whatever happens, a message that Exchange returns answers this query.
	udpKinds := []string{"valid", "valid-tc", "stale-reply-of-other-client", "wrong-id", "wrong-question", "junk"}
	tcpKinds := []string{"valid", "dial-refused", "eof", "reset", "stale-reply-of-other-client"}
	vrt.Part(r, "upstream-any", func(emit func(c06aCase)) {
		for _, u := range udpKinds {
			for _, tk := range tcpKinds {
				emit(c06aCase{UDP: u, TCP: tk})
			}
		}
	}, func(c c06aCase) []vrt.Finding {
		const victim = "secret.client-a.example."
		mk := func(kind string) []byte {
			switch kind {
			case "valid":
				return c06uReply(probeName, 0x7777, "198.51.100.1")
			case "valid-tc":
				m := &dns.Msg{}
				_ = m.Unpack(c06uReply(probeName, 0x7777, "198.51.100.1"))
				m.Truncated = true
				b, _ := m.Pack()

				return b
			case "stale-reply-of-other-client":
				return c06uReply(victim, 0x1111, "203.0.113.7")
			case "wrong-id":
				return c06uReply(probeName, 0x7778, "198.51.100.1")
			case "wrong-question":
				return c06uReply(victim, 0x7777, "203.0.113.7")
			default:
				return []byte{1, 2, 3}
			}
		}
		u := NewUpstreamPlain(&UpstreamPlainConfig{Network: NetworkAny, Address: netip.MustParseAddrPort("192.0.2.53:53"), Timeout: time.Second})
		u.connsPoolUDP = pool.NewPool(4, func(_ context.Context) (net.Conn, error) {
			return &c06uConn{reply: mk(c.UDP)}, nil
		})
		u.connsPoolTCP = pool.NewPool(4, func(_ context.Context) (net.Conn, error) {
			switch c.TCP {
			case "dial-refused":
				return nil, &net.OpError{Op: "dial", Net: "tcp", Err: os.NewSyscallError("connect", syscall.ECONNREFUSED)}
			case "eof":
				return &c06uConn{tcp: true, fail: io.EOF}, nil
			case "reset":
				return &c06uConn{tcp: true, fail: &net.OpError{Op: "read", Net: "tcp", Err: os.NewSyscallError("read", syscall.ECONNRESET)}}, nil
			}

			return &c06uConn{tcp: true, reply: mk(c.TCP)}, nil
		})
		req := &dns.Msg{}
		req.SetQuestion(probeName, dns.TypeA)
		req.Id = 0x7777
		resp, _, err := u.Exchange(context.Background(), req)
		r.Trans(1)
		if err != nil || resp == nil {
			r.Class("upstream-any error")
			r.State("any err " + c.UDP + c.TCP)

			return nil
		}
		r.Class("upstream-any answered")
		r.State("any ok " + c.UDP + c.TCP)
		if resp.Id != req.Id || len(resp.Question) != 1 || !strings.EqualFold(resp.Question[0].Name, probeName) || resp.Question[0].Qtype != dns.TypeA {
			return vrt.F("upstream-any/returned-message-answers-another-query", "UDP socket delivers %q, TCP fall-back ends with %q: Exchange returned without an error a message with id %#x for %v (query: id %#x %s A): %s", c.UDP, c.TCP, resp.Id, resp.Question, req.Id, probeName, strings.Join(strings.Fields(resp.String()), " "))
		}

		return nil
	})
	// Upstream connections as STREAMS with time: the reply of an earlier
	// exchange arrives in two parts, the second one only after the read
	// deadline of that exchange has passed (the upstream was slow).  Whatever
	// the code does with such a connection, the next exchange - which the
	// upstream answers completely and at once - must decode as on a fresh
	// upstream: bytes of the late remainder must not be taken for its reply.
	lateFull := c06uReply("victim-a.example.", 0x1000, "203.0.113.7")
	var lateCuts []int
	for k := 0; k <= len(lateFull)+2; k += vrt.Pick(r, 5, 1) {
		lateCuts = append(lateCuts, k)
	}
	r.Bound("upstream_late_cuts", len(lateCuts))
	vrt.Part(r, "upstream-late", func(emit func(c06lCase)) {
		for _, nw := range []string{"udp", "tcp"} {
			for _, k := range lateCuts {
				for _, n := range []int{1, 2} {
					emit(c06lCase{Network: nw, Cut: k, Slow: n})
				}
			}
		}
	}, func(c c06lCase) []vrt.Finding {
		nw := NetworkUDP
		if c.Network == "tcp" {
			nw = NetworkTCP
		}
		run := func(slow int) (out string, dials int) {
			u := NewUpstreamPlain(&UpstreamPlainConfig{Network: nw, Address: netip.MustParseAddrPort("192.0.2.53:53"), Timeout: time.Second})
			f := func(_ context.Context) (net.Conn, error) {
				dials++

				return &c06sConn{tcp: nw == NetworkTCP, cut: c.Cut, probe: probeName, probeReply: full, slowReply: lateFull}, nil
			}
			u.connsPoolUDP = pool.NewPool(4, f)
			u.connsPoolTCP = pool.NewPool(4, f)
			for i := 0; i < slow; i++ {
				req := &dns.Msg{}
				req.SetQuestion("victim-a.example.", dns.TypeA)
				req.Id = 0x1000
				_, _, _ = u.Exchange(context.Background(), req)
			}
			req := &dns.Msg{}
			req.SetQuestion(probeName, dns.TypeA)
			req.Id = 0x7777
			resp, _, err := u.Exchange(context.Background(), req)
			if err != nil {
				return "err " + err.Error(), dials
			}

			return strings.Join(strings.Fields(resp.String()), " "), dials
		}
		got, dials := run(c.Slow)
		want, _ := run(0)
		r.Trans(c.Slow + 2)
		r.Class("upstream-late-" + c.Network)
		r.State(fmt.Sprint("late", c.Network, c.Cut, c.Slow, dials, got == want))
		if got != want {
			return vrt.F("decode-depends-on-history/upstream-late-"+c.Network, "upstream %s: %d earlier exchange(s) whose reply arrived %d bytes in time and the rest after the deadline, then a query for %s that is answered at once:\n   this upstream : %s\n   fresh upstream: %s", c.Network, c.Slow, c.Cut, probeName, got, want)
		}

		return nil
	})
	// Upstream TCP replies whose length prefix announces fewer octets than a
	// DNS header (1..11), delivered completely: however the reply is rejected,
	// the next exchange - answered correctly and at once - must decode as on a
	// fresh upstream; octets of the short frame must not be taken for its
	// reply.
	vrt.Part(r, "upstream-short-frame", func(emit func(c06lCase)) {
		for _, l := range []int{1, 2, 5, 11} {
			for _, n := range []int{1, 2} {
				emit(c06lCase{Network: "tcp", Cut: l, Slow: n})
			}
		}
	}, func(c c06lCase) []vrt.Finding {
		raw := make([]byte, 2+c.Cut)
		binary.BigEndian.PutUint16(raw, uint16(c.Cut))
		for i := range raw[2:] {
			raw[2+i] = byte(0x11 * (i + 1))
		}
		run := func(slow int) string {
			u := NewUpstreamPlain(&UpstreamPlainConfig{Network: NetworkTCP, Address: netip.MustParseAddrPort("192.0.2.53:53"), Timeout: time.Second})
			f := func(_ context.Context) (net.Conn, error) {
				return &c06sConn{tcp: true, cut: len(raw), probe: probeName, probeReply: full, rawSlow: raw}, nil
			}
			u.connsPoolUDP = pool.NewPool(4, f)
			u.connsPoolTCP = pool.NewPool(4, f)
			for i := 0; i < slow; i++ {
				req := &dns.Msg{}
				req.SetQuestion("victim-a.example.", dns.TypeA)
				req.Id = 0x1000
				_, _, _ = u.Exchange(context.Background(), req)
			}
			req := &dns.Msg{}
			req.SetQuestion(probeName, dns.TypeA)
			req.Id = 0x7777
			resp, _, err := u.Exchange(context.Background(), req)
			if err != nil {
				return "err " + err.Error()
			}

			return strings.Join(strings.Fields(resp.String()), " ")
		}
		got, want := run(c.Slow), run(0)
		r.Trans(c.Slow + 2)
		r.Class("upstream-short-frame")
		r.State(fmt.Sprint("short", c.Cut, c.Slow, got == want))
		if got != want {
			return vrt.F("decode-depends-on-history/upstream-short-frame", "upstream tcp: %d earlier exchange(s) answered with a frame that announces %d octets, then a query for %s that is answered correctly:\n   this upstream : %s\n   fresh upstream: %s", c.Slow, c.Cut, probeName, got, want)
		}

		return nil
	})
	r.Finish()
	os.Exit(0)
}

type c06lCase struct {
	Network string `json:"network"`
	// Cut is the number of bytes of the slow reply that arrive in time.
	Cut int `json:"bytes_in_time"`
	// Slow is the number of earlier slow exchanges.
	Slow int `json:"slow_exchanges"`
}

// c06sConn is an in-memory upstream connection with stream semantics and a
// notion of time: a query for the probe name is answered completely at once;
// any other query gets the first cut bytes of slowReply, then the read
// deadline passes (Read reports a timeout), and the rest arrives afterwards.
type c06sConn struct {
	tcp        bool
	cut        int
	probe      string
	probeReply []byte
	slowReply  []byte
	// rawSlow, when set, is sent instead of the framed slowReply: the octets
	// of the stream exactly as given.
	rawSlow []byte
	out     []byte
	inbox   [][]byte
	late    [][]byte
	closed  bool
}

func (c *c06sConn) frame(b []byte) []byte {
	if !c.tcp {
		return b
	}
	f := make([]byte, 2+len(b))
	binary.BigEndian.PutUint16(f, uint16(len(b)))
	copy(f[2:], b)

	return f
}

func (c *c06sConn) Write(p []byte) (int, error) {
	if c.closed {
		return 0, net.ErrClosed
	}
	c.out = append(c.out, p...)
	msg := c.out
	if c.tcp {
		if len(c.out) < 2 || len(c.out) < 2+int(binary.BigEndian.Uint16(c.out)) {
			return len(p), nil
		}
		msg = c.out[2:]
	}
	c.out = nil
	q := &dns.Msg{}
	if err := q.Unpack(msg); err != nil || len(q.Question) != 1 {
		return len(p), nil
	}
	if strings.EqualFold(q.Question[0].Name, c.probe) {
		c.inbox = append(c.inbox, c.frame(c.probeReply))

		return len(p), nil
	}
	f := c.frame(c.slowReply)
	if c.rawSlow != nil {
		f = c.rawSlow
	}
	k := min(c.cut, len(f))
	if c.tcp {
		if k > 0 {
			c.inbox = append(c.inbox, f[:k])
		}
		if k < len(f) {
			c.late = append(c.late, f[k:])
		}
	} else {
		// A datagram arrives whole or not at all: in time when the cut is at
		// its end, late otherwise.
		if k == len(f) {
			c.inbox = append(c.inbox, f)
		} else {
			c.late = append(c.late, f)
		}
	}

	return len(p), nil
}

func (c *c06sConn) Read(p []byte) (int, error) {
	if c.closed {
		return 0, net.ErrClosed
	}
	if len(c.inbox) == 0 {
		// Nothing more arrives before the deadline; what is late arrives
		// after it.
		c.inbox, c.late = c.late, nil

		return 0, &net.OpError{Op: "read", Net: "tcp", Err: os.ErrDeadlineExceeded}
	}
	n := copy(p, c.inbox[0])
	if c.tcp && n < len(c.inbox[0]) {
		c.inbox[0] = c.inbox[0][n:]
	} else {
		c.inbox = c.inbox[1:]
	}

	return n, nil
}
func (c *c06sConn) Close() error                     { c.closed = true; return nil }
func (c *c06sConn) LocalAddr() net.Addr              { return &net.UDPAddr{} }
func (c *c06sConn) RemoteAddr() net.Addr             { return &net.UDPAddr{} }
func (c *c06sConn) SetDeadline(time.Time) error      { return nil }
func (c *c06sConn) SetReadDeadline(time.Time) error  { return nil }
func (c *c06sConn) SetWriteDeadline(time.Time) error { return nil }

type c06aCase struct {
	UDP string `json:"udp_socket_delivers"`
	TCP string `json:"tcp_fallback"`
}
