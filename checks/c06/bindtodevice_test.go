//go:build verif && linux

package bindtodevice

import (
	"bytes"
	"context"
	"fmt"
	"net"
	"net/netip"
	"os"
	"runtime"
	"runtime/debug"
	"syscall"
	"testing"
	"time"

	"github.com/AdguardTeam/AdGuardDNS/internal/dnsserver/zzverif/vrt"
	"github.com/AdguardTeam/golibs/logutil/slogutil"
	"golang.org/x/sys/unix"
)

// C06, unit "bindtodevice": the UDP receive path of the bind-to-device manager
// (interfaceListener.readUDP -> readPacketSession -> chanPacketConn ->
// ReadFromSession, bodies recycled by writeUDP).  Every history of datagrams
// of different sizes, answered or not, on the real listener over real
// loopback sockets; the bytes handed to the DNS server for each datagram must
// be the ones a freshly created listener hands over for the same datagram.

type c06bIface struct{}

func (c06bIface) Subnets() ([]netip.Prefix, error) {
	return []netip.Prefix{netip.MustParsePrefix("127.0.0.0/8")}, nil
}

type c06bIfaces struct{}

func (c06bIfaces) InterfaceByName(string) (NetInterface, error) { return c06bIface{}, nil }

type c06bErrColl struct{}

func (c06bErrColl) Collect(context.Context, error) {}

// c06bRig is one interface listener with a packet connection for 127/8 and
// the real socket it reads from.
type c06bRig struct {
	l      *interfaceListener
	pc     *chanPacketConn
	srv    *net.UDPConn
	client *net.UDPConn
}

// c06bBindToDevice is set when SO_BINDTODEVICE is not permitted here; the
// socket is then made with the other options of the real listen config.
var c06bPlainSocket bool

func c06bNew() *c06bRig {
	m := NewManager(&ManagerConfig{Logger: slogutil.NewDiscardLogger(), InterfaceStorage: c06bIfaces{}, ErrColl: c06bErrColl{}, ChannelBufferSize: 4})
	if err := m.Add("v", "lo", 0, nil); err != nil {
		vrt.Fatalf("bindtodevice add: %v", err)
	}
	lc, err := m.ListenConfig("v", netip.MustParsePrefix("127.0.0.0/8"))
	if err != nil {
		vrt.Fatalf("bindtodevice listen config: %v", err)
	}
	l := m.ifaceListeners["v"]
	ctx := context.Background()
	var pconn net.PacketConn
	if !c06bPlainSocket {
		pconn, err = l.listenConf.ListenPacket(ctx, "udp", "127.0.0.1:0")
		if err != nil {
			c06bPlainSocket = true
		}
	}
	if c06bPlainSocket {
		plain := &net.ListenConfig{Control: func(_, _ string, c syscall.RawConn) (err error) {
			var operr error
			err = c.Control(func(fd uintptr) {
				operr = unix.SetsockoptInt(int(fd), unix.IPPROTO_IP, unix.IP_RECVORIGDSTADDR, 1)
			})
			if err != nil {
				return err
			}

			return operr
		}}
		pconn, err = plain.ListenPacket(ctx, "udp4", "127.0.0.1:0")
		if err != nil {
			vrt.Fatalf("bindtodevice: listening on loopback: %v", err)
		}
	}
	cl, err := net.DialUDP("udp4", nil, pconn.LocalAddr().(*net.UDPAddr))
	if err != nil {
		vrt.Fatalf("bindtodevice: dialing: %v", err)
	}

	return &c06bRig{l: l, pc: lc.packetConn, srv: pconn.(*net.UDPConn), client: cl}
}

func (g *c06bRig) close() {
	_ = g.srv.Close()
	_ = g.client.Close()
}

// c06bEvent is one datagram of the alphabet.
type c06bEvent struct {
	Len     int  `json:"length"`
	Respond bool `json:"answered"`
}

func c06bPayload(ev c06bEvent, salt int) []byte {
	b := make([]byte, ev.Len)
	for i := range b {
		b[i] = byte(0x20 + (i*7+salt*13+ev.Len)%0x5f)
	}

	return b
}

// feed sends one datagram through the listener and returns what the DNS
// server's read call gets for it.
func (g *c06bRig) feed(ev c06bEvent, salt int) string {
	p := c06bPayload(ev, salt)
	if _, err := g.client.Write(p); err != nil {
		return "client write error: " + err.Error()
	}
	_ = g.srv.SetReadDeadline(time.Now().Add(20 * time.Second))
	if err := g.l.readUDP(context.Background(), slogutil.NewDiscardLogger(), g.srv); err != nil {
		return "readUDP error: " + err.Error()
	}
	buf := make([]byte, 65535)
	_ = g.pc.SetReadDeadline(time.Now().Add(20 * time.Second))
	n, sess, err := g.pc.ReadFromSession(buf)
	if err != nil {
		return "ReadFromSession error: " + err.Error()
	}
	out := fmt.Sprintf("n=%d hash=%s", n, vrt.Hash(string(buf[:n])))
	if !bytes.Equal(buf[:n], p[:min(n, len(p))]) {
		out += " (NOT a prefix of the datagram)"
	}
	if ev.Respond {
		done := make(chan struct{})
		go func() {
			defer close(done)
			g.l.writeUDP(g.srv, <-g.l.writeRequests)
		}()
		_, werr := g.pc.WriteToSession([]byte("answer"), sess)
		<-done
		if werr != nil {
			out += " write error: " + werr.Error()
		} else {
			rb := make([]byte, 64)
			_ = g.client.SetReadDeadline(time.Now().Add(20 * time.Second))
			rn, rerr := g.client.Read(rb)
			if rerr != nil || string(rb[:rn]) != "answer" {
				out += fmt.Sprintf(" answer=%q err=%v", rb[:rn], rerr)
			}
		}
	}

	return out
}

type c06bCase struct {
	Events []int `json:"events"`
}

func TestVerifC06BindToDevice(t *testing.T) {
	prop := "C06"
	if p := os.Getenv("VERIF_PROP"); p != "" {
		prop = p
	}
	r := vrt.Start(prop)
	debug.SetGCPercent(-1) // keep sync.Pool contents: reuse is then deterministic (GOMAXPROCS=1)
	var alpha []c06bEvent
	for _, n := range vrt.Pick(r, []int{5, 29, 120, 513, 5000}, []int{1, 5, 12, 29, 64, 120, 513, 4096, 5000}) {
		alpha = append(alpha, c06bEvent{Len: n, Respond: true}, c06bEvent{Len: n, Respond: false})
	}
	depth := vrt.Pick(r, 4, 4)
	r.Bound("bindtodevice_datagram_sizes", len(alpha)/2)
	r.Bound("bindtodevice_depth", depth)
	fresh := map[int]string{}
	for i, ev := range alpha {
		g := c06bNew()
		fresh[i] = g.feed(ev, 0)
		g.close()
	}
	r.Note("bindtodevice: SO_BINDTODEVICE socket: %v", !c06bPlainSocket)
	n := 0
	vrt.Part(r, "bindtodevice", func(emit func(c06bCase)) {
		vrt.Sequences(len(alpha), 1, depth, func(seq []int) { emit(c06bCase{Events: append([]int{}, seq...)}) })
	}, func(c c06bCase) []vrt.Finding {
		n++
		if n%500 == 0 {
			runtime.GC()
		}
		g := c06bNew()
		defer g.close()
		for i, ei := range c.Events {
			got := g.feed(alpha[ei], 0)
			r.Trans(1)
			if got != fresh[ei] {
				return vrt.F("bindtodevice/received-bytes-depend-on-history", "datagram %+v after %d earlier ones (%v):\n   this listener : %s\n   fresh listener: %s", alpha[ei], i, c.Events[:i], got, fresh[ei])
			}
		}
		r.Class(fmt.Sprintf("bindtodevice depth %d", len(c.Events)))
		r.State(fmt.Sprint("b2d", c.Events))

		return nil
	})
	r.Finish()
	os.Exit(0)
}
