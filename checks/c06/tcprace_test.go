//go:build verif

package dnsserver

import (
	"context"
	"encoding/binary"
	"fmt"
	"io"
	"net"
	"os"
	"runtime"
	"runtime/debug"
	"testing"
	"time"

	"github.com/AdguardTeam/AdGuardDNS/internal/dnsserver/zzverif/vrt"
	"github.com/AdguardTeam/AdGuardDNS/internal/dnsserver/zzverif/xsched"
	"github.com/miekg/dns"
)

// Pipelined queries on one TCP connection: the connection loop reads the next
// message while the workers of earlier ones may not have run yet, and the
// workers write their responses to the shared connection in any order.  Every
// query must still be decoded from its own bytes, answered exactly once, and
// the frames on the wire must stay intact.

// c06tConn is an in-memory stream: reads return at most what one Read of a
// real connection could return (here: up to the end of the current message,
// in the pieces the server asks for), writes are recorded one by one.
type c06tConn struct {
	in     []byte
	writes [][]byte
	// slow is the number of Reads that return one octet only, with a
	// scheduling point before each (a Read of a real connection blocks
	// there): the length prefix arrives in pieces.
	slow int
}

func (c *c06tConn) Read(p []byte) (int, error) {
	if c.slow > 0 {
		c.slow--
		xsched.Yield("conn: waiting for the next segment")
		if len(p) > 1 && len(c.in) > 0 {
			p = p[:1]
		}
	}
	if len(c.in) == 0 {
		return 0, io.EOF
	}
	n := copy(p, c.in)
	c.in = c.in[n:]

	return n, nil
}

func (c *c06tConn) Write(p []byte) (int, error) {
	c.writes = append(c.writes, append([]byte{}, p...))

	return len(p), nil
}
func (c *c06tConn) Close() error                     { return nil }
func (c *c06tConn) LocalAddr() net.Addr              { return &net.TCPAddr{IP: net.IP{127, 0, 0, 1}, Port: 53} }
func (c *c06tConn) RemoteAddr() net.Addr             { return &net.TCPAddr{IP: net.IP{192, 0, 2, 9}, Port: 4000} }
func (c *c06tConn) SetDeadline(time.Time) error      { return nil }
func (c *c06tConn) SetReadDeadline(time.Time) error  { return nil }
func (c *c06tConn) SetWriteDeadline(time.Time) error { return nil }

// c06tHandler answers every query with its own question and ID.
type c06tHandler struct{}

func (c06tHandler) ServeDNS(ctx context.Context, rw ResponseWriter, req *dns.Msg) error {
	resp := &dns.Msg{}
	resp.SetReply(req)

	return rw.WriteMsg(ctx, req, resp)
}

type c06tEnv struct {
	conn *c06tConn
	n    int
	errs []error
}

func c06tQuery(i int) *dns.Msg {
	m := &dns.Msg{}
	// Names of different lengths, so that a later message does not simply
	// overwrite an earlier one completely.
	name := fmt.Sprintf("stream-%d-%s.example.", i, "xxxxxxxxxxxxxxxxxxxxxxxx"[:4*(3-i)])
	m.SetQuestion(name, dns.TypeA)
	m.Id = uint16(0x1000 * (i + 1))

	return m
}

// c06tSetup runs the REAL connection loop (serveTCPConn) over n pipelined
// queries; pipe > 0 enables the pipeline limit with that many messages in
// flight (the limit's semaphore is a modelled one, see tools/instr -sema).
func c06tSetup(n, pipe int, s *xsched.Sched) *c06tEnv {
	conf := ConfigDNS{ConfigBase: ConfigBase{Name: "verif", Addr: "127.0.0.1:0", Network: NetworkTCP, Handler: c06tHandler{}}}
	if pipe > 0 {
		conf.MaxPipelineEnabled, conf.MaxPipelineCount = true, uint(pipe)
	}
	srv := NewServerDNS(conf)
	srv.started = true
	srv.workerPool.Release()
	env := &c06tEnv{conn: &c06tConn{}, n: n}
	for i := 0; i < n; i++ {
		b, _ := c06tQuery(i).Pack()
		env.conn.in = binary.BigEndian.AppendUint16(env.conn.in, uint16(len(b)))
		env.conn.in = append(env.conn.in, b...)
	}
	s.Go("conn-loop", func() {
		srv.wg.Add(1)
		srv.serveTCPConn(context.Background(), env.conn)
	})

	return env
}

func c06tCheck(env *c06tEnv, x *xsched.Exec) []vrt.Finding {
	if x.Sched.Panicked != "" {
		return vrt.F("tcp-race/panic", "%s", x.Sched.Panicked)
	}
	if x.Sched.Deadlock || x.Sched.LimitHit {
		return vrt.F("tcp-race/deadlock", "blocked %v", x.Sched.Blocked)
	}
	if len(env.errs) > 0 {
		return vrt.F("tcp-race/message-not-accepted", "%v", env.errs)
	}
	// The wire as the client sees it: one byte stream.
	var wire []byte
	for _, w := range env.conn.writes {
		wire = append(wire, w...)
	}
	answered := map[uint16]int{}
	for len(wire) > 0 {
		if len(wire) < 2 || len(wire) < 2+int(binary.BigEndian.Uint16(wire)) {
			return vrt.F("tcp-race/framing-broken", "the response stream ends inside a frame (%d bytes left)\nschedule:\n%s", len(wire), x.Sched.Describe())
		}
		l := int(binary.BigEndian.Uint16(wire))
		m := &dns.Msg{}
		if err := m.Unpack(wire[2 : 2+l]); err != nil {
			return vrt.F("tcp-race/undecodable-response", "a frame of %d bytes does not decode: %v\nschedule:\n%s", l, err, x.Sched.Describe())
		}
		wire = wire[2+l:]
		var q *dns.Msg
		for i := 0; i < env.n; i++ {
			if c := c06tQuery(i); c.Id == m.Id {
				q = c
			}
		}
		if q == nil || len(m.Question) != 1 || m.Question[0].Name != q.Question[0].Name || !m.Response {
			return vrt.F("tcp-race/response-matches-no-query", "a response with id %#x for %v was written: no pipelined query has this id and question (a message decoded from a buffer already reused for a later one)\nschedule:\n%s", m.Id, m.Question, x.Sched.Describe())
		}
		answered[m.Id]++
	}
	for i := 0; i < env.n; i++ {
		if q := c06tQuery(i); answered[q.Id] != 1 {
			return vrt.F("tcp-race/query-not-answered-once", "pipelined query %d (%s, id %#x) received %d responses\nschedule:\n%s", i, q.Question[0].Name, q.Id, answered[q.Id], x.Sched.Describe())
		}
	}

	return nil
}

type c06tCase struct {
	N       int   `json:"messages"`
	Pipe    int   `json:"max_pipeline_count,omitempty"`
	Choices []int `json:"choices"`
	// TwoConns selects the scenario of two connections to one server.
	TwoConns bool `json:"two_connections,omitempty"`
}

// Two connections to ONE server object, one query each, the length prefixes
// arriving octet by octet: the framing of a client's query must depend on its
// own octets only, whatever the other connection's reader does in between.
// One query is shorter than 256 octets, the other longer.
type c06t2Env struct {
	conns [2]*c06tConn
	errs  []error
}

func c06t2Query(i int) *dns.Msg {
	m := &dns.Msg{}
	m.SetQuestion(fmt.Sprintf("conn-%d.example.", i), dns.TypeA)
	m.Id = uint16(0x2100 + i)
	if i == 1 {
		m.SetEdns0(1232, false)
		m.IsEdns0().Option = append(m.IsEdns0().Option, &dns.EDNS0_LOCAL{Code: 65001, Data: make([]byte, 300)})
	}

	return m
}

func c06t2Setup(s *xsched.Sched) *c06t2Env {
	srv := NewServerDNS(ConfigDNS{ConfigBase: ConfigBase{Name: "verif", Addr: "127.0.0.1:0", Network: NetworkTCP, Handler: c06tHandler{}}})
	srv.started = true
	srv.workerPool.Release()
	env := &c06t2Env{}
	for i := range env.conns {
		b, _ := c06t2Query(i).Pack()
		c := &c06tConn{slow: 3}
		c.in = binary.BigEndian.AppendUint16(c.in, uint16(len(b)))
		c.in = append(c.in, b...)
		env.conns[i] = c
		s.Go(fmt.Sprintf("conn-loop-%d", i), func() {
			srv.wg.Add(1)
			srv.serveTCPConn(context.Background(), c)
		})
	}

	return env
}

func c06t2Check(env *c06t2Env, x *xsched.Exec) []vrt.Finding {
	if x.Sched.Panicked != "" {
		return vrt.F("tcp-two-conns/panic", "%s", x.Sched.Panicked)
	}
	if x.Sched.Deadlock || x.Sched.LimitHit {
		return vrt.F("tcp-two-conns/deadlock", "blocked %v", x.Sched.Blocked)
	}
	if len(env.errs) > 0 {
		return vrt.F("tcp-two-conns/message-not-accepted", "%v\nschedule:\n%s", env.errs, x.Sched.Describe())
	}
	for i, c := range env.conns {
		var wire []byte
		for _, w := range c.writes {
			wire = append(wire, w...)
		}
		q := c06t2Query(i)
		m := &dns.Msg{}
		if len(wire) < 2 || len(wire) != 2+int(binary.BigEndian.Uint16(wire)) || m.Unpack(wire[2:]) != nil ||
			m.Id != q.Id || len(m.Question) != 1 || m.Question[0].Name != q.Question[0].Name {
			return vrt.F("tcp-two-conns/query-not-answered-from-its-own-bytes", "connection %d sent %s (id %#x) and received %x\nschedule:\n%s", i, q.Question[0].Name, q.Id, wire, x.Sched.Describe())
		}
	}

	return nil
}

func TestVerifC06TCPRace(t *testing.T) {
	r := vrt.Start("C06")
	debug.SetGCPercent(-1)
	var rc c06tCase
	if r.ReplayCase("tcp-two-conns", &rc) {
		var env *c06t2Env
		x := xsched.Replay(rc.Choices, func(s *xsched.Sched) { env = c06t2Setup(s) })
		r.Eval()
		r.Report("tcp-two-conns", rc, c06t2Check(env, x))
	}
	if r.ReplayCase("tcp-race", &rc) {
		var env *c06tEnv
		x := xsched.Replay(rc.Choices, func(s *xsched.Sched) { env = c06tSetup(rc.N, rc.Pipe, s) })
		r.Eval()
		r.Report("tcp-race", rc, c06tCheck(env, x))
	}
	if r.ShouldRun() {
		shard, nshards := r.NShards()
		execs := 0
		r.Bound("tcp_race_preemptions", vrt.Pick(r, "2 messages: 3, 3 messages: 2", "2 messages: unbounded, 3 messages: 3"))
		r.Bound("tcp_race_scenarios", "2 and 3 pipelined messages x pipeline limit off / 1 / 2 (3 messages: off / 1)")
		for ni, sc := range [][2]int{{2, 0}, {3, 0}, {2, 1}, {3, 1}, {2, 2}} {
			if ni%nshards != shard {
				continue
			}
			n, pipe := sc[0], sc[1]
			pre := vrt.Pick(r, 3, -1)
			if n == 3 {
				pre = vrt.Pick(r, 2, 3)
			}
			var env *c06tEnv
			found := 0
			st := xsched.Explore(xsched.Config{MaxPreemptions: pre, MaxDeviations: 0, Stop: r.Expired},
				func(s *xsched.Sched) {
					if execs++; execs%2000 == 0 {
						runtime.GC()
					}
					env = c06tSetup(n, pipe, s)
				},
				func(x *xsched.Exec) bool {
					r.Eval()
					r.Trans(len(x.Sched.Trace))
					fs := c06tCheck(env, x)
					r.Class(fmt.Sprintf("tcp-race %d messages, pipeline limit %d", n, pipe))
					order := ""
					for _, w := range env.conn.writes {
						if len(w) >= 4 {
							order += fmt.Sprintf("%x ", w[2:4])
						}
					}
					r.State(fmt.Sprintf("tcp-race %d %d %s", n, pipe, order))
					if len(fs) > 0 {
						r.Report("tcp-race", c06tCase{N: n, Pipe: pipe, Choices: x.Choices}, fs)
						found++
					}

					return found < 1
				})
			if st.Stopped {
				r.Note("tcp race n=%d pipe=%d stopped by deadline after %d executions", n, pipe, st.Executions)
			}
		}
	}
	if r.ShouldRun() {
		if shard, nshards := r.NShards(); 5%nshards == shard {
			r.Bound("tcp_two_conns_preemptions", vrt.Pick(r, "2", "3"))
			var env *c06t2Env
			found, execs := 0, 0
			st := xsched.Explore(xsched.Config{MaxPreemptions: vrt.Pick(r, 2, 3), MaxDeviations: 0, Stop: r.Expired},
				func(s *xsched.Sched) {
					if execs++; execs%2000 == 0 {
						runtime.GC()
					}
					env = c06t2Setup(s)
				},
				func(x *xsched.Exec) bool {
					r.Eval()
					r.Trans(len(x.Sched.Trace))
					fs := c06t2Check(env, x)
					r.Class("tcp-two-conns")
					r.State(fmt.Sprintf("tcp-two-conns %d %d", len(env.conns[0].writes), len(env.conns[1].writes)))
					if len(fs) > 0 {
						r.Report("tcp-two-conns", c06tCase{TwoConns: true, Choices: x.Choices}, fs)
						found++
					}

					return found < 1
				})
			if st.Stopped {
				r.Note("tcp two-connections scenario stopped by deadline after %d executions", st.Executions)
			}
		}
	}
	r.Finish()
	os.Exit(0)
}
