//go:build verif

package dnsserver

// C01: a timeout-kind error at the accept / read point of a serving loop must
// not end the loop ("cannot take a listener down").  The loops of this package
// that run their accept / read call with a deadline are serveUDP (readUDPMsg
// sets a read deadline of ConfigDNS.ReadTimeout before every ReadFrom) and
// serveQUIC (acceptQUICConn gives quic.Listener.Accept a context that expires
// after DefaultReadTimeout).  The TCP accept loop calls Accept without a
// deadline, and the DNSCrypt loops belong to the dnscrypt library; both are
// covered by the loopback unit's idle period only.
//
// Only error values that the real environment returns at that point are used:
//
//   - UDP ReadFrom: *net.OpError wrapping os.ErrDeadlineExceeded (a stdlib
//     *net.UDPConn) and a bare os.ErrDeadlineExceeded (the packet connections
//     of internal/bindtodevice);
//   - quic.Listener.Accept: whatever the real quic-go listener returns when
//     its context expires (a bare context.DeadlineExceeded in quic-go v0.48) —
//     produced here by a real listener, not scripted.

import (
	"context"
	"crypto/tls"
	"encoding/binary"
	"fmt"
	"io"
	"net"
	"os"
	"sync"
	"time"

	"github.com/AdguardTeam/AdGuardDNS/internal/dnsserver/zzverif/vdns"
	"github.com/AdguardTeam/AdGuardDNS/internal/dnsserver/zzverif/vrt"
	"github.com/miekg/dns"
	"github.com/quic-go/quic-go"
)

// ---- UDP: scripted read errors before the real datagram ------------------------------

// c01UDPTimeoutCase is a sequence of timeout-kind read errors before a query.
type c01UDPTimeoutCase struct {
	Errs []string `json:"errs"`
}

var c01UDPTimeoutKinds = []string{"net.OpError(os.ErrDeadlineExceeded)", "os.ErrDeadlineExceeded"}

func c01UDPTimeoutErr(kind string) error {
	switch kind {
	case "net.OpError(os.ErrDeadlineExceeded)":
		return &net.OpError{Op: "read", Net: "udp", Source: c01UDPLocal, Err: os.ErrDeadlineExceeded}
	case "os.ErrDeadlineExceeded":
		return os.ErrDeadlineExceeded
	}
	vrt.Fatalf("c01: unknown error kind %q", kind)

	return nil
}

// c01ScriptedPacketConn returns the scripted errors, then one datagram, then
// net.ErrClosed for ever.
type c01ScriptedPacketConn struct {
	mu     sync.Mutex
	errs   []error
	in     []byte
	sent   [][]byte
	reads  int
	closed int
	stop   func()
}

func (c *c01ScriptedPacketConn) ReadFrom(p []byte) (n int, addr net.Addr, err error) {
	c.mu.Lock()
	defer c.mu.Unlock()
	c.reads++
	switch {
	case len(c.errs) > 0:
		err, c.errs = c.errs[0], c.errs[1:]

		return 0, nil, err
	case c.in != nil:
		n = copy(p, c.in)
		c.in = nil

		return n, c01UDPRemote, nil
	}
	c.closed++
	if c.closed > 20 {
		// The loop does not end on a closed connection; end it for the
		// harness's sake.
		c.stop()
	}

	return 0, nil, &net.OpError{Op: "read", Net: "udp", Source: c01UDPLocal, Err: net.ErrClosed}
}

func (c *c01ScriptedPacketConn) WriteTo(p []byte, _ net.Addr) (n int, err error) {
	c.mu.Lock()
	defer c.mu.Unlock()
	c.sent = append(c.sent, append([]byte{}, p...))

	return len(p), nil
}
func (c *c01ScriptedPacketConn) Close() error                       { return nil }
func (c *c01ScriptedPacketConn) LocalAddr() net.Addr                { return c01UDPLocal }
func (c *c01ScriptedPacketConn) SetDeadline(_ time.Time) error      { return nil }
func (c *c01ScriptedPacketConn) SetReadDeadline(_ time.Time) error  { return nil }
func (c *c01ScriptedPacketConn) SetWriteDeadline(_ time.Time) error { return nil }

func c01RunUDPTimeouts(r *vrt.Run, c c01UDPTimeoutCase) (fs []vrt.Finding) {
	rig, release := c01NewRigFor("udp")
	defer release()
	s := rig.plain
	req := vdns.NewReq(0x7b01, "Ok.After-Timeout.Example.", dns.TypeA, dns.ClassINET)
	wire := c01MustPack(req)
	conn := &c01ScriptedPacketConn{in: wire, stop: func() {
		s.mu.Lock()
		s.started = false
		s.mu.Unlock()
	}}
	for _, k := range c.Errs {
		conn.errs = append(conn.errs, c01UDPTimeoutErr(k))
	}
	var loopErr error
	panicked := vrt.Catch(func() { loopErr = s.serveUDP(context.Background(), conn) })
	s.wg.Wait()
	r.Trans(len(c.Errs) + 2)
	obs := c01TObs{Panicked: panicked}
	c01DecodeDatagrams(conn.sent, &obs)
	q := req.Question[0]
	for _, f := range c01CheckQueryOn(r, "udp", wire, req, c01H(q.Name, q.Qtype, q.Qclass), obs) {
		if f.Key == "udp/no-response-to-query" {
			f.Key = "udp/read-timeout-ends-serving-loop"
			f.Detail = fmt.Sprintf("serveUDP returned %v after %d read(s); the query that arrived after the timeout(s) was never read", loopErr, conn.reads)
		}
		f.Detail = fmt.Sprintf("read errors %v before the query: %s", c.Errs, f.Detail)
		fs = append(fs, f)
	}
	if conn.closed != 1 {
		fs = append(fs, vrt.F("udp/closed-connection-does-not-end-serving-loop",
			"read errors %v: serveUDP read %d times from a connection that reports net.ErrClosed (returned %v)", c.Errs, conn.closed, loopErr)...)
	}
	r.Class(fmt.Sprintf("timeouts:udp %d timeout-kind read errors -> answered=%v loop ended=%v", len(c.Errs), len(obs.Msgs) == 1, conn.closed == 1))

	return fs
}

// c01TimeoutParts is called from TestVerifC01.
func c01TimeoutParts(r *vrt.Run) {
	r.Bound("udp_read_timeouts", "all sequences of <=2 errors over "+fmt.Sprint(c01UDPTimeoutKinds))
	vrt.Part(r, "udp-read-timeouts",
		func(emit func(c01UDPTimeoutCase)) {
			vrt.Sequences(len(c01UDPTimeoutKinds), 0, 2, func(seq []int) {
				c := c01UDPTimeoutCase{Errs: []string{}}
				for _, k := range seq {
					c.Errs = append(c.Errs, c01UDPTimeoutKinds[k])
				}
				emit(c)
			})
		},
		func(c c01UDPTimeoutCase) []vrt.Finding { return c01RunUDPTimeouts(r, c) })
}

// ---- QUIC: the real acceptQUICConn on a real listener whose Accept timed out -----------------

// VerifC01QUICAcceptTimeouts drives ServerQUIC.acceptQUICConn, the body of the
// serveQUIC loop (which returns on any error of it), by hand on a real
// quic-go listener on 127.0.0.1: k times Accept's context expires (the
// harness passes a context that is about to expire, so no two-second wait is
// needed; the error value is quic-go's own), then a real client connects and
// sends a query, then the listener is closed.  Called from the loopback unit.
func VerifC01QUICAcceptTimeouts(r *vrt.Run, tlsConf *tls.Config, k int) (fs []vrt.Finding) {
	s := NewServerQUIC(ConfigQUIC{
		TLSConfig:  tlsConf,
		ConfigBase: ConfigBase{Name: "c01-doq-accept", Addr: "127.0.0.1:0", Handler: c01Handler{}},
	})
	defer s.pool.Release()
	s.started = true
	pc, err := net.ListenPacket("udp", "127.0.0.1:0")
	if err != nil {
		vrt.Fatalf("c01: listen udp: %v", err)
	}
	defer pc.Close()
	tr := &quic.Transport{Conn: pc}
	defer tr.Close()
	l, err := tr.Listen(tlsConf, newServerQUICConfig(false, 0))
	if err != nil {
		vrt.Fatalf("c01: quic listen: %v", err)
	}
	wg := &sync.WaitGroup{}
	bg := context.Background()

	for i := 0; i < k; i++ {
		ctx, cancel := context.WithTimeout(bg, 2*time.Millisecond)
		aerr := s.acceptQUICConn(ctx, l, wg)
		cancel()
		if aerr != nil {
			_ = l.Close()

			return vrt.F("doq/accept-timeout-ends-serving-loop",
				"quic.Listener.Accept timed out (timeout %d of %d) and acceptQUICConn returned %T %q; serveQUIC returns on any error, so the DoQ accept loop ends while the listener stays open",
				i+1, k, aerr, aerr.Error())
		}
	}

	// A client connects now; the loop body is called until it is done.
	type result struct {
		m   *dns.Msg
		err error
	}
	req := vdns.NewReq(0, "Ok.After-Accept-Timeout.Example.", dns.TypeA, dns.ClassINET)
	wire := c01MustPack(req)
	var last error
	answered := false
	for attempt := 0; attempt < 3 && !answered; attempt++ {
		done := make(chan result, 1)
		go func() {
			ctx, cancel := context.WithTimeout(bg, 10*time.Second)
			defer cancel()
			conn, derr := quic.DialAddr(ctx, pc.LocalAddr().String(), &tls.Config{InsecureSkipVerify: true, NextProtos: []string{"doq"}}, nil)
			if derr != nil {
				done <- result{err: derr}

				return
			}
			defer func() { _ = conn.CloseWithError(0, "") }()
			st, derr := conn.OpenStreamSync(ctx)
			if derr != nil {
				done <- result{err: derr}

				return
			}
			_, _ = st.Write(c01Frame(wire))
			_ = st.Close()
			_ = st.SetReadDeadline(time.Now().Add(10 * time.Second))
			data, derr := io.ReadAll(st)
			if derr != nil || len(data) < 2 || int(binary.BigEndian.Uint16(data)) != len(data)-2 {
				done <- result{err: fmt.Errorf("reading the answer: %d octets, %v", len(data), derr)}

				return
			}
			m := &dns.Msg{}
			done <- result{m: m, err: m.Unpack(data[2:])}
		}()
		var res result
		got := false
		for i := 0; i < 8 && !got; i++ {
			// Blocks for at most DefaultReadTimeout.
			if aerr := s.acceptQUICConn(bg, l, wg); aerr != nil {
				_ = l.Close()

				return vrt.F("doq/accept-timeout-ends-serving-loop", "acceptQUICConn returned %T %q while waiting for a client", aerr, aerr.Error())
			}
			// If a connection was accepted the answer follows shortly.
			select {
			case res = <-done:
				got = true
			case <-time.After(500 * time.Millisecond):
			}
		}
		if !got {
			res = <-done
		}
		if res.err != nil {
			last = res.err

			continue
		}
		q := req.Question[0]
		if sub := c01CheckQueryOn(r, "doq", wire, req, c01H(q.Name, q.Qtype, q.Qclass), c01TObs{Msgs: []*dns.Msg{res.m}}); len(sub) > 0 {
			last = fmt.Errorf("[%s] %s", sub[0].Key, sub[0].Detail)

			continue
		}
		answered = true
	}
	if !answered {
		fs = append(fs, vrt.F("doq/no-answer-after-accept-timeouts", "after %d accept timeout(s) a client's query was not answered in 3 attempts: %v", k, last)...)
	}

	_ = l.Close()
	if aerr := s.acceptQUICConn(bg, l, wg); aerr == nil {
		fs = append(fs, vrt.F("doq/closed-listener-does-not-end-serving-loop", "acceptQUICConn returned nil for a closed listener")...)
	}
	waited := make(chan struct{})
	go func() { wg.Wait(); close(waited) }()
	select {
	case <-waited:
	case <-time.After(10 * time.Second):
	}

	return fs
}
