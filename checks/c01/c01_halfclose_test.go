//go:build verif

package dnsserver

// C01: queries that were accepted on a TCP / DoT connection get their answer
// also when the connection's read loop ends while they are still being
// resolved: the client half-closes after sending (shutdown(SHUT_WR), TLS
// close_notify), or the idle / read deadline fires.  This unit drives the real
// connection loop ServerDNS.serveTCPConn (with its deferred clean-up) over an
// in-memory connection inside a testing/synctest bubble; synctest.Wait gives
// deterministic quiescence ("every goroutine is durably blocked"), so the
// order "the read loop has ended, THEN the handlers finish" is forced, not
// raced for.

import (
	"context"
	"fmt"
	"io"
	"net"
	"os"
	"sync"
	"testing"
	"testing/synctest"
	"time"

	"github.com/AdguardTeam/AdGuardDNS/internal/dnsserver/zzverif/vdns"
	"github.com/AdguardTeam/AdGuardDNS/internal/dnsserver/zzverif/vrt"
	"github.com/AdguardTeam/golibs/log"
	"github.com/miekg/dns"
)

// c01HalfCloseCase is one scenario.
type c01HalfCloseCase struct {
	T string `json:"t"` // "tcp" or "dot"
	N int    `json:"n"` // number of pipelined queries
	// Seg is "one-piece" or "octet-by-octet".
	Seg string `json:"seg"`
	// End is what ends the read loop: "eof" (half-close) or "deadline" (the
	// read deadline fires).
	End string `json:"end"`
	// Order is "handlers-finish-after-end" (the scenario) or
	// "handlers-finish-before-end" (control: a client that keeps the
	// connection open until it has its answers).
	Order string `json:"order"`
	// ErrAt is the index of the query whose handler returns an error (-1:
	// none).
	ErrAt int `json:"err_at"`
}

// c01GateHandler is H behind a gate.
type c01GateHandler struct {
	gate chan struct{}
}

func (h *c01GateHandler) ServeDNS(ctx context.Context, rw ResponseWriter, req *dns.Msg) (err error) {
	<-h.gate

	return c01Handler{}.ServeDNS(ctx, rw, req)
}

// c01HalfCloseConn delivers the client's octets, then ends the stream.
type c01HalfCloseConn struct {
	mu     sync.Mutex
	pieces [][]byte
	// hold, if not nil, is waited for before the end of the stream is
	// reported.
	hold   chan struct{}
	endErr error
	// events is the ordered log: "write <n>" for a successful write, "write
	// after close", "close".
	events []string
	out    []byte
	closes int
	ended  bool
}

func (c *c01HalfCloseConn) Read(p []byte) (n int, err error) {
	c.mu.Lock()
	if c.closes > 0 {
		c.mu.Unlock()

		return 0, net.ErrClosed
	}
	for len(c.pieces) > 0 && len(c.pieces[0]) == 0 {
		c.pieces = c.pieces[1:]
	}
	if len(c.pieces) > 0 {
		n = copy(p, c.pieces[0])
		c.pieces[0] = c.pieces[0][n:]
		c.mu.Unlock()

		return n, nil
	}
	hold := c.hold
	c.mu.Unlock()
	if hold != nil {
		<-hold
	}
	c.mu.Lock()
	defer c.mu.Unlock()
	c.ended = true

	return 0, c.endErr
}

func (c *c01HalfCloseConn) Write(p []byte) (n int, err error) {
	c.mu.Lock()
	defer c.mu.Unlock()
	if c.closes > 0 {
		c.events = append(c.events, "write after close")

		return 0, net.ErrClosed
	}
	c.events = append(c.events, fmt.Sprintf("write %d", len(p)))
	c.out = append(c.out, p...)

	return len(p), nil
}

func (c *c01HalfCloseConn) Close() error {
	c.mu.Lock()
	defer c.mu.Unlock()
	c.closes++
	c.events = append(c.events, "close")

	return nil
}
func (c *c01HalfCloseConn) LocalAddr() net.Addr                { return c01TCPLocal }
func (c *c01HalfCloseConn) RemoteAddr() net.Addr               { return c01TCPRemote }
func (c *c01HalfCloseConn) SetDeadline(_ time.Time) error      { return nil }
func (c *c01HalfCloseConn) SetReadDeadline(_ time.Time) error  { return nil }
func (c *c01HalfCloseConn) SetWriteDeadline(_ time.Time) error { return nil }

// c01RunHalfClose runs one scenario; it must be called inside a synctest
// bubble.
func c01RunHalfClose(r *vrt.Run, c c01HalfCloseCase) (fs []vrt.Finding) {
	h := &c01GateHandler{gate: make(chan struct{})}
	conf := ConfigDNS{ConfigBase: ConfigBase{Name: "c01-halfclose", Addr: "192.0.2.53:53", Handler: h, Disposer: c01Disposer}}
	proto := ProtoDNS
	if c.T == "dot" {
		proto = ProtoDoT
	}
	s := newServerDNS(proto, conf)
	defer s.workerPool.Release()
	s.started = true

	var reqs []*dns.Msg
	var wires [][]byte
	var stream []byte
	for i := 0; i < c.N; i++ {
		name := fmt.Sprintf("Ok-%d.Half-Close.Example.", i)
		if i == c.ErrAt {
			name = fmt.Sprintf("Err-%d.Half-Close.Example.", i)
		}
		m := vdns.NewReq(uint16(0x7c00+i), name, dns.TypeA, dns.ClassINET)
		w := c01MustPack(m)
		reqs, wires, stream = append(reqs, m), append(wires, w), append(stream, c01Frame(w)...)
	}
	conn := &c01HalfCloseConn{endErr: io.EOF}
	if c.End == "deadline" {
		conn.endErr = &net.OpError{Op: "read", Net: "tcp", Source: c01TCPLocal, Addr: c01TCPRemote, Err: os.ErrDeadlineExceeded}
	}
	if c.Seg == "octet-by-octet" {
		for i := range stream {
			conn.pieces = append(conn.pieces, stream[i:i+1])
		}
	} else {
		conn.pieces = [][]byte{stream}
	}
	if c.Order == "handlers-finish-before-end" {
		conn.hold = make(chan struct{})
	}

	done := make(chan struct{})
	s.wg.Add(1)
	go func() {
		defer close(done)
		s.serveTCPConn(context.Background(), conn)
	}()
	// All queries are read and handed to workers, which block on the gate;
	// the serving goroutine has seen the end of the stream (or waits for it).
	synctest.Wait()
	close(h.gate)
	synctest.Wait()
	if conn.hold != nil {
		close(conn.hold)
		synctest.Wait()
	}
	r.Trans(c.N + 1)
	finished := false
	select {
	case <-done:
		finished = true
	default:
	}

	conn.mu.Lock()
	events, out, closes, ended := append([]string{}, conn.events...), append([]byte{}, conn.out...), conn.closes, conn.ended
	conn.mu.Unlock()
	all := c01TObs{}
	c01DecodeFrames(out, &all)
	what := "half-close"
	if c.End == "deadline" {
		what = "read-timeout"
	}
	answered := 0
	used := make([]bool, len(all.Msgs))
	for i, req := range reqs {
		obs := c01TObs{Garbled: all.Garbled, Closed: closes > 0}
		for j, m := range all.Msgs {
			if !used[j] && m.Id == req.Id {
				used[j] = true
				obs.Msgs = append(obs.Msgs, m)
			}
		}
		if len(obs.Msgs) == 1 {
			answered++
		}
		q := req.Question[0]
		for _, f := range c01CheckQueryOn(r, c.T, wires[i], req, c01H(q.Name, q.Qtype, q.Qclass), obs) {
			if f.Key == c.T+"/no-response-to-query" {
				f.Key = c.T + "/accepted-query-unanswered-after-" + what
				f.Detail = fmt.Sprintf("query %d of %d (%q) was accepted but never answered", i+1, c.N, q.Name)
			}
			f.Detail = fmt.Sprintf("%s; read loop ended by %s, %s; events on the connection: %v", f.Detail, c.End, c.Order, events)
			fs = append(fs, f)
		}
	}
	for j, m := range all.Msgs {
		if !used[j] {
			fs = append(fs, vrt.F(c.T+"/two-responses", "a response that belongs to none of the queries, or a second one: %s", vdns.Canon(m, true))...)
		}
	}
	if !ended {
		vrt.Fatalf("c01 half-close: the server never read to the end of the stream (%+v, events %v)", c, events)
	}
	if !finished || closes == 0 {
		fs = append(fs, vrt.F(c.T+"/connection-not-released-after-read-loop-ended",
			"serveTCPConn returned=%v, connection closed %d times after the read loop ended by %s; events: %v", finished, closes, c.End, events)...)
	}
	r.Class(fmt.Sprintf("halfclose:%s end=%s %s -> %d/%d answered, closed %d time(s), returned=%v", c.T, c.End, c.Order, answered, c.N, closes, finished))
	r.State(fmt.Sprintf("halfclose|%+v|%v", c, events))

	return fs
}

func TestVerifC01HalfClose(t *testing.T) {
	log.SetOutput(io.Discard)
	synctest.Test(t, func(t *testing.T) {
		r := vrt.Start("C01")
		r.Bound("halfclose_cases", "{tcp,dot} x 1..3 pipelined queries x {one piece, octet by octet} x {EOF, read deadline} x {handlers finish after / before the end} x {no error, handler error at each position}")
		vrt.Part(r, "tcp-conn-half-close",
			func(emit func(c01HalfCloseCase)) {
				for _, tr := range []string{"tcp", "dot"} {
					for n := 1; n <= 3; n++ {
						for _, seg := range []string{"one-piece", "octet-by-octet"} {
							for _, end := range []string{"eof", "deadline"} {
								for _, order := range []string{"handlers-finish-after-end", "handlers-finish-before-end"} {
									for e := -1; e < n; e++ {
										emit(c01HalfCloseCase{T: tr, N: n, Seg: seg, End: end, Order: order, ErrAt: e})
									}
								}
							}
						}
					}
				}
			},
			func(c c01HalfCloseCase) []vrt.Finding { return c01RunHalfClose(r, c) })
		r.Finish()
		os.Exit(0)
	})
}
