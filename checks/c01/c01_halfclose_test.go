//go:build verif

package dnsserver

// C01: queries that were accepted on a TCP / DoT connection get their answer
// also when the connection's read loop ends while they are still being
// resolved: the client half-closes after sending (shutdown(SHUT_WR), TLS
// close_notify), or the idle / read deadline fires.  This unit drives the real
// connection loop ServerDNS.serveTCPConn (with its deferred clean-up) over an
// in-memory connection inside a testing/synctest bubble; synctest.Wait gives
// deterministic quiescence ("every goroutine is durably blocked"), so the
// order "the read loop has ended, THEN the handlers finish" is forced, not
// raced for.

import (
	"context"
	"fmt"
	"io"
	"net"
	"os"
	"sync"
	"testing"
	"testing/synctest"
	"time"

	"github.com/AdguardTeam/AdGuardDNS/internal/dnsserver/zzverif/vdns"
	"github.com/AdguardTeam/AdGuardDNS/internal/dnsserver/zzverif/vrt"
	"github.com/AdguardTeam/golibs/log"
	"github.com/miekg/dns"
)

// c01HalfCloseCase is one scenario.
type c01HalfCloseCase struct {
	T string `json:"t"` // "tcp" or "dot"
	N int    `json:"n"` // number of pipelined queries
	// Seg is "one-piece" or "octet-by-octet".
	Seg string `json:"seg"`
	// End is what ends the read loop: "eof" (half-close) or "deadline" (the
	// read deadline fires).
	End string `json:"end"`
	// Order is "handlers-finish-after-end" (the scenario) or
	// "handlers-finish-before-end" (control: a client that keeps the
	// connection open until it has its answers).
	Order string `json:"order"`
	// ErrAt is the index of the query whose handler returns an error (-1:
	// none).
	ErrAt int `json:"err_at"`
}

// c01GateHandler is H behind a gate.
type c01GateHandler struct {
	gate chan struct{}
}

func (h *c01GateHandler) ServeDNS(ctx context.Context, rw ResponseWriter, req *dns.Msg) (err error) {
	<-h.gate

	return c01Handler{}.ServeDNS(ctx, rw, req)
}

// c01HalfCloseConn delivers the client's octets, then ends the stream.
type c01HalfCloseConn struct {
	mu     sync.Mutex
	pieces [][]byte
	// hold, if not nil, is waited for before the end of the stream is
	// reported.
	hold   chan struct{}
	endErr error
	// events is the ordered log: "write <n>" for a successful write, "write
	// after close", "close".
	events []string
	out    []byte
	closes int
	ended  bool
}

func (c *c01HalfCloseConn) Read(p []byte) (n int, err error) {
	c.mu.Lock()
	if c.closes > 0 {
		c.mu.Unlock()

		return 0, net.ErrClosed
	}
	for len(c.pieces) > 0 && len(c.pieces[0]) == 0 {
		c.pieces = c.pieces[1:]
	}
	if len(c.pieces) > 0 {
		n = copy(p, c.pieces[0])
		c.pieces[0] = c.pieces[0][n:]
		c.mu.Unlock()

		return n, nil
	}
	hold := c.hold
	c.mu.Unlock()
	if hold != nil {
		<-hold
	}
	c.mu.Lock()
	defer c.mu.Unlock()
	c.ended = true

	return 0, c.endErr
}

func (c *c01HalfCloseConn) Write(p []byte) (n int, err error) {
	c.mu.Lock()
	defer c.mu.Unlock()
	if c.closes > 0 {
		c.events = append(c.events, "write after close")

		return 0, net.ErrClosed
	}
	c.events = append(c.events, fmt.Sprintf("write %d", len(p)))
	c.out = append(c.out, p...)

	return len(p), nil
}

func (c *c01HalfCloseConn) Close() error {
	c.mu.Lock()
	defer c.mu.Unlock()
	c.closes++
	c.events = append(c.events, "close")

	return nil
}
func (c *c01HalfCloseConn) LocalAddr() net.Addr                { return c01TCPLocal }
func (c *c01HalfCloseConn) RemoteAddr() net.Addr               { return c01TCPRemote }
func (c *c01HalfCloseConn) SetDeadline(_ time.Time) error      { return nil }
func (c *c01HalfCloseConn) SetReadDeadline(_ time.Time) error  { return nil }
func (c *c01HalfCloseConn) SetWriteDeadline(_ time.Time) error { return nil }

// c01RunHalfClose runs one scenario; it must be called inside a synctest
// bubble.
func c01RunHalfClose(r *vrt.Run, c c01HalfCloseCase) (fs []vrt.Finding) {
	h := &c01GateHandler{gate: make(chan struct{})}
	conf := ConfigDNS{ConfigBase: ConfigBase{Name: "c01-halfclose", Addr: "192.0.2.53:53", Handler: h, Disposer: c01Disposer}}
	proto := ProtoDNS
	if c.T == "dot" {
		proto = ProtoDoT
	}
	s := newServerDNS(proto, conf)
	defer s.workerPool.Release()
	s.started = true

	var reqs []*dns.Msg
	var wires [][]byte
	var stream []byte
	for i := 0; i < c.N; i++ {
		name := fmt.Sprintf("Ok-%d.Half-Close.Example.", i)
		if i == c.ErrAt {
			name = fmt.Sprintf("Err-%d.Half-Close.Example.", i)
		}
		m := vdns.NewReq(uint16(0x7c00+i), name, dns.TypeA, dns.ClassINET)
		w := c01MustPack(m)
		reqs, wires, stream = append(reqs, m), append(wires, w), append(stream, c01Frame(w)...)
	}
	conn := &c01HalfCloseConn{endErr: io.EOF}
	if c.End == "deadline" {
		conn.endErr = &net.OpError{Op: "read", Net: "tcp", Source: c01TCPLocal, Addr: c01TCPRemote, Err: os.ErrDeadlineExceeded}
	}
	if c.Seg == "octet-by-octet" {
		for i := range stream {
			conn.pieces = append(conn.pieces, stream[i:i+1])
		}
	} else {
		conn.pieces = [][]byte{stream}
	}
	if c.Order == "handlers-finish-before-end" {
		conn.hold = make(chan struct{})
	}

	done := make(chan struct{})
	s.wg.Add(1)
	go func() {
		defer close(done)
		s.serveTCPConn(context.Background(), conn)
	}()
	// All queries are read and handed to workers, which block on the gate;
	// the serving goroutine has seen the end of the stream (or waits for it).
	synctest.Wait()
	close(h.gate)
	synctest.Wait()
	if conn.hold != nil {
		close(conn.hold)
		synctest.Wait()
	}
	r.Trans(c.N + 1)
	finished := false
	select {
	case <-done:
		finished = true
	default:
	}

	conn.mu.Lock()
	events, out, closes, ended := append([]string{}, conn.events...), append([]byte{}, conn.out...), conn.closes, conn.ended
	conn.mu.Unlock()
	all := c01TObs{}
	c01DecodeFrames(out, &all)
	what := "half-close"
	if c.End == "deadline" {
		what = "read-timeout"
	}
	answered := 0
	used := make([]bool, len(all.Msgs))
	for i, req := range reqs {
		obs := c01TObs{Garbled: all.Garbled, Closed: closes > 0}
		for j, m := range all.Msgs {
			if !used[j] && m.Id == req.Id {
				used[j] = true
				obs.Msgs = append(obs.Msgs, m)
			}
		}
		if len(obs.Msgs) == 1 {
			answered++
		}
		q := req.Question[0]
		for _, f := range c01CheckQueryOn(r, c.T, wires[i], req, c01H(q.Name, q.Qtype, q.Qclass), obs) {
			if f.Key == c.T+"/no-response-to-query" {
				f.Key = c.T + "/accepted-query-unanswered-after-" + what
				f.Detail = fmt.Sprintf("query %d of %d (%q) was accepted but never answered", i+1, c.N, q.Name)
			}
			f.Detail = fmt.Sprintf("%s; read loop ended by %s, %s; events on the connection: %v", f.Detail, c.End, c.Order, events)
			fs = append(fs, f)
		}
	}
	for j, m := range all.Msgs {
		if !used[j] {
			fs = append(fs, vrt.F(c.T+"/two-responses", "a response that belongs to none of the queries, or a second one: %s", vdns.Canon(m, true))...)
		}
	}
	if !ended {
		vrt.Fatalf("c01 half-close: the server never read to the end of the stream (%+v, events %v)", c, events)
	}
	if !finished || closes == 0 {
		fs = append(fs, vrt.F(c.T+"/connection-not-released-after-read-loop-ended",
			"serveTCPConn returned=%v, connection closed %d times after the read loop ended by %s; events: %v", finished, closes, c.End, events)...)
	}
	r.Class(fmt.Sprintf("halfclose:%s end=%s %s -> %d/%d answered, closed %d time(s), returned=%v", c.T, c.End, c.Order, answered, c.N, closes, finished))
	r.State(fmt.Sprintf("halfclose|%+v|%v", c, events))

	return fs
}

// ---- Idle gaps between queries on one connection, with a request timeout -------------------

// c01IdleGapCase is a history on one connection (or, for udp, on one server):
// query, idle gap, query, ...; the servers are built with a request-context
// timeout T (ConfigBase.RequestContext = NewTimeoutContextConstructor(T)) and
// the default TCP idle timeout (30 s) >> T.  Time is the bubble's virtual
// clock.
type c01IdleGapCase struct {
	T string `json:"t"` // "tcp", "dot" or "udp"
	// GapsMs are the idle gaps before the 2nd, 3rd, ... query, in
	// milliseconds.
	GapsMs []int `json:"gaps_ms"`
}

const c01RequestTimeout = time.Second

// c01IdleGaps: 0, T/2, just under T, just over T, 3T, just under the idle
// timeout.
var c01IdleGaps = []int{0, 500, 999, 1001, 3000, 29900}

// c01ClockConn is an in-memory connection that honours read and write
// deadlines against the (virtual) clock: a Read with nothing to deliver blocks
// until the client sends more, closes, or the read deadline passes; a Write
// past the write deadline fails with a timeout error.
type c01ClockConn struct {
	mu     sync.Mutex
	in     chan []byte
	buf    []byte
	rdl    time.Time
	wdl    time.Time
	out    []byte
	events []string
	closes int
}

type c01ClockTimeout struct{}

func (c01ClockTimeout) Error() string   { return "i/o timeout" }
func (c01ClockTimeout) Timeout() bool   { return true }
func (c01ClockTimeout) Temporary() bool { return true }
func (c01ClockTimeout) Unwrap() error   { return os.ErrDeadlineExceeded }

func (c *c01ClockConn) Read(p []byte) (n int, err error) {
	c.mu.Lock()
	if c.closes > 0 {
		c.mu.Unlock()

		return 0, net.ErrClosed
	}
	if len(c.buf) == 0 {
		rdl := c.rdl
		c.mu.Unlock()
		var timeout <-chan time.Time
		if !rdl.IsZero() {
			d := time.Until(rdl)
			if d <= 0 {
				return 0, &net.OpError{Op: "read", Net: "tcp", Err: c01ClockTimeout{}}
			}
			tm := time.NewTimer(d)
			defer tm.Stop()
			timeout = tm.C
		}
		select {
		case b, ok := <-c.in:
			if !ok {
				return 0, io.EOF
			}
			c.mu.Lock()
			c.buf = b
		case <-timeout:
			c.mu.Lock()
			c.events = append(c.events, "read deadline passed")
			c.mu.Unlock()

			return 0, &net.OpError{Op: "read", Net: "tcp", Err: c01ClockTimeout{}}
		}
	}
	n = copy(p, c.buf)
	c.buf = c.buf[n:]
	c.mu.Unlock()

	return n, nil
}

func (c *c01ClockConn) Write(p []byte) (n int, err error) {
	c.mu.Lock()
	defer c.mu.Unlock()
	switch {
	case c.closes > 0:
		c.events = append(c.events, "write after close")

		return 0, net.ErrClosed
	case !c.wdl.IsZero() && !c.wdl.After(time.Now()):
		c.events = append(c.events, fmt.Sprintf("write of %d octets FAILS: write deadline %s ago", len(p), time.Since(c.wdl)))

		return 0, &net.OpError{Op: "write", Net: "tcp", Err: c01ClockTimeout{}}
	}
	c.events = append(c.events, fmt.Sprintf("write %d", len(p)))
	c.out = append(c.out, p...)

	return len(p), nil
}

func (c *c01ClockConn) Close() error {
	c.mu.Lock()
	defer c.mu.Unlock()
	c.closes++
	c.events = append(c.events, "close")

	return nil
}
func (c *c01ClockConn) LocalAddr() net.Addr  { return c01TCPLocal }
func (c *c01ClockConn) RemoteAddr() net.Addr { return c01TCPRemote }
func (c *c01ClockConn) SetDeadline(t time.Time) error {
	c.mu.Lock()
	defer c.mu.Unlock()
	c.rdl, c.wdl = t, t

	return nil
}
func (c *c01ClockConn) SetReadDeadline(t time.Time) error {
	c.mu.Lock()
	defer c.mu.Unlock()
	c.rdl = t

	return nil
}
func (c *c01ClockConn) SetWriteDeadline(t time.Time) error {
	c.mu.Lock()
	defer c.mu.Unlock()
	c.wdl = t

	return nil
}

func (c *c01ClockConn) snapshot() (out []byte, events []string, closes int) {
	c.mu.Lock()
	defer c.mu.Unlock()

	return append([]byte{}, c.out...), append([]string{}, c.events...), c.closes
}

// c01RunIdleGap runs one history; it must be called inside a synctest bubble.
func c01RunIdleGap(r *vrt.Run, c c01IdleGapCase) (fs []vrt.Finding) {
	conf := ConfigDNS{
		ConfigBase: ConfigBase{
			Name: "c01-idle-gap", Addr: "192.0.2.53:53", Handler: c01Handler{}, Disposer: c01Disposer,
			RequestContext: NewTimeoutContextConstructor(c01RequestTimeout),
		},
		MaxUDPRespSize: dns.MaxMsgSize,
	}
	proto := ProtoDNS
	if c.T == "dot" {
		proto = ProtoDoT
	}
	s := newServerDNS(proto, conf)
	defer s.workerPool.Release()
	s.started = true
	n := len(c.GapsMs) + 1
	query := func(i int) (*dns.Msg, []byte) {
		m := vdns.NewReq(uint16(0x7e00+i), fmt.Sprintf("Ok-%d.Idle-Gap.Example.", i), dns.TypeA, dns.ClassINET)

		return m, c01MustPack(m)
	}
	judge := func(i int, obs c01TObs, events []string) {
		req, wire := query(i)
		q := req.Question[0]
		gap := "first query"
		if i > 0 {
			gap = fmt.Sprintf("after an idle gap of %d ms (request timeout %s, idle timeout %s)", c.GapsMs[i-1], c01RequestTimeout, s.conf.TCPIdleTimeout)
		}
		for _, f := range c01CheckQueryOn(r, c.T, wire, req, c01H(q.Name, q.Qtype, q.Qclass), obs) {
			if f.Key == c.T+"/no-response-to-query" {
				f.Key = c.T + "/accepted-query-unanswered-after-idle-gap"
			}
			f.Detail = fmt.Sprintf("query %d of %d, %s: %s; connection: %v", i+1, n, gap, f.Detail, events)
			fs = append(fs, f)
		}
	}
	r.Trans(n)

	if c.T == "udp" {
		// Control: no connection state between datagrams.
		for i := 0; i < n; i++ {
			if i > 0 {
				time.Sleep(time.Duration(c.GapsMs[i-1]) * time.Millisecond)
			}
			_, wire := query(i)
			pc := &c01PacketConn{in: wire}
			obs := c01TObs{}
			var err error
			obs.Panicked = vrt.Catch(func() { err = s.acceptUDPMsg(context.Background(), pc) })
			synctest.Wait()
			if err != nil {
				obs.Garbled = "acceptUDPMsg: " + err.Error()
			}
			c01DecodeDatagrams(pc.sent, &obs)
			judge(i, obs, nil)
		}
		r.Class(fmt.Sprintf("idlegap:udp %d queries", n))

		return fs
	}

	conn := &c01ClockConn{in: make(chan []byte)}
	done := make(chan struct{})
	s.wg.Add(1)
	go func() {
		defer close(done)
		s.serveTCPConn(context.Background(), conn)
	}()
	seen := 0
	answered := 0
	for i := 0; i < n; i++ {
		if i > 0 {
			time.Sleep(time.Duration(c.GapsMs[i-1]) * time.Millisecond)
		}
		_, wire := query(i)
		_, _, closes := conn.snapshot()
		if closes > 0 {
			judge(i, c01TObs{Closed: true}, []string{"the server closed the connection before this query could be sent"})

			continue
		}
		conn.in <- c01Frame(wire)
		synctest.Wait()
		out, events, closes := conn.snapshot()
		obs := c01TObs{Closed: closes > 0}
		c01DecodeFrames(out[seen:], &obs)
		seen = len(out)
		if len(obs.Msgs) == 1 {
			answered++
		}
		judge(i, obs, events)
	}
	close(conn.in)
	synctest.Wait()
	select {
	case <-done:
	default:
		fs = append(fs, vrt.F(c.T+"/connection-not-released-after-read-loop-ended", "serveTCPConn did not return after the client closed the connection")...)
	}
	r.Class(fmt.Sprintf("idlegap:%s gaps %v ms -> %d/%d answered", c.T, c.GapsMs, answered, n))
	_, events, _ := conn.snapshot()
	r.State(fmt.Sprintf("idlegap|%+v|%d", c, len(events)))

	return fs
}

func TestVerifC01HalfClose(t *testing.T) {
	log.SetOutput(io.Discard)
	synctest.Test(t, func(t *testing.T) {
		r := vrt.Start("C01")
		r.Bound("halfclose_cases", "{tcp,dot} x 1..3 pipelined queries x {one piece, octet by octet} x {EOF, read deadline} x {handlers finish after / before the end} x {no error, handler error at each position}")
		vrt.Part(r, "tcp-conn-half-close",
			func(emit func(c01HalfCloseCase)) {
				for _, tr := range []string{"tcp", "dot"} {
					for n := 1; n <= 3; n++ {
						for _, seg := range []string{"one-piece", "octet-by-octet"} {
							for _, end := range []string{"eof", "deadline"} {
								for _, order := range []string{"handlers-finish-after-end", "handlers-finish-before-end"} {
									for e := -1; e < n; e++ {
										emit(c01HalfCloseCase{T: tr, N: n, Seg: seg, End: end, Order: order, ErrAt: e})
									}
								}
							}
						}
					}
				}
			},
			func(c c01HalfCloseCase) []vrt.Finding { return c01RunHalfClose(r, c) })
		r.Bound("idle_gap_histories", vrt.Pick(r, "{tcp,dot,udp} x query, gap, query over gaps "+fmt.Sprint(c01IdleGaps)+" ms (request timeout 1 s, idle timeout 30 s)",
			"{tcp,dot,udp} x query, gap, query [, gap, query] over gaps "+fmt.Sprint(c01IdleGaps)+" ms (request timeout 1 s, idle timeout 30 s)"))
		vrt.Part(r, "tcp-idle-gap",
			func(emit func(c01IdleGapCase)) {
				for _, tr := range []string{"tcp", "dot", "udp"} {
					for _, g := range c01IdleGaps {
						emit(c01IdleGapCase{T: tr, GapsMs: []int{g}})
					}
					if r.Thorough() {
						for _, g1 := range c01IdleGaps {
							for _, g2 := range c01IdleGaps {
								emit(c01IdleGapCase{T: tr, GapsMs: []int{g1, g2}})
							}
						}
					}
				}
			},
			func(c c01IdleGapCase) []vrt.Finding { return c01RunIdleGap(r, c) })
		r.Finish()
		os.Exit(0)
	})
}
