//go:build verif

package dnsserver_test

// C01 loopback tier: the six servers are started through their public
// constructors (dnsservertest.Run* helpers) on 127.0.0.1 with handler H and
// queried by real clients over real sockets: UDP, TCP, DoT, DoH over HTTP/2
// (POST, GET, JSON), DoH over HTTP/3 (POST), DoQ, DNSCrypt over UDP and TCP.
// Exchanges are sequential, timeouts are generous, and nothing is concluded
// from the absence of a datagram: "nothing was sent" is judged only where the
// transport makes it observable (TCP EOF, HTTP status, QUIC stream or
// connection error); a response that must arrive is awaited three times.

import (
	"bytes"
	"context"
	"crypto/tls"
	"encoding/base64"
	"encoding/binary"
	"errors"
	"fmt"
	"io"
	"net"
	"net/http"
	"net/url"
	"os"
	"strconv"
	"testing"
	"time"

	"github.com/AdguardTeam/AdGuardDNS/internal/dnsserver"
	"github.com/AdguardTeam/AdGuardDNS/internal/dnsserver/dnsservertest"
	"github.com/AdguardTeam/AdGuardDNS/internal/dnsserver/zzverif/vdns"
	"github.com/AdguardTeam/AdGuardDNS/internal/dnsserver/zzverif/vrt"
	"github.com/AdguardTeam/golibs/log"
	"github.com/ameshkov/dnscrypt/v2"
	"github.com/ameshkov/dnsstamps"
	"github.com/miekg/dns"
	"github.com/quic-go/quic-go"
	"github.com/quic-go/quic-go/http3"
	"golang.org/x/net/http2"
)

const (
	lbTimeout  = 10 * time.Second
	lbAttempts = 3
	lbTLSName  = "c01.example.org"
)

// lbServers are the running servers of the process.
type lbServers struct {
	dnsAddr   string
	dotAddr   string
	dohAddr   net.Addr
	doh3Addr  net.Addr
	doqAddr   string
	crypt     *dnsservertest.TestDNSCryptServer
	h2        *http.Client
	h3        *http.Client
	clientTLS *tls.Config
}

var lbTheServers *lbServers

func lbStart(t *testing.T) *lbServers {
	if lbTheServers != nil {
		return lbTheServers
	}
	h := dnsserver.VerifC01Handler
	s := &lbServers{}
	_, s.dnsAddr = dnsservertest.RunDNSServer(t, h)
	s.dotAddr = dnsservertest.RunTLSServer(t, h, dnsservertest.CreateServerTLSConfig(lbTLSName)).String()
	doh, err := dnsservertest.RunLocalHTTPSServer(h, dnsservertest.CreateServerTLSConfig(lbTLSName), nil)
	if err != nil {
		vrt.Fatalf("c01 loopback: starting DoH: %v", err)
	}
	s.dohAddr, s.doh3Addr = doh.LocalTCPAddr(), doh.LocalUDPAddr()
	doqConf := dnsservertest.CreateServerTLSConfig(lbTLSName)
	doqConf.NextProtos = dnsserver.NextProtoDoQ
	_, doqAddr, err := dnsservertest.RunLocalQUICServer(h, doqConf)
	if err != nil {
		vrt.Fatalf("c01 loopback: starting DoQ: %v", err)
	}
	s.doqAddr = doqAddr.String()
	s.crypt = dnsservertest.RunDNSCryptServer(t, h)

	s.clientTLS = &tls.Config{InsecureSkipVerify: true, ServerName: lbTLSName}
	s.h2, s.h3 = lbNewHTTPClients(s)
	lbTheServers = s

	return s
}

// lbNewHTTPClients returns fresh HTTP/2 and HTTP/3 clients (no connection yet).
func lbNewHTTPClients(s *lbServers) (h2c, h3c *http.Client) {
	h2tls := s.clientTLS.Clone()
	h2tls.NextProtos = []string{"h2"}
	dialer := &net.Dialer{Timeout: lbTimeout}
	tr := &http.Transport{
		TLSClientConfig:    h2tls,
		DisableCompression: true,
		ForceAttemptHTTP2:  true,
		DialContext: func(ctx context.Context, network, _ string) (net.Conn, error) {
			return dialer.DialContext(ctx, network, s.dohAddr.String())
		},
	}
	if err := http2.ConfigureTransport(tr); err != nil {
		vrt.Fatalf("c01 loopback: http2: %v", err)
	}
	h2c = &http.Client{Transport: tr, Timeout: lbTimeout}
	h3tls := s.clientTLS.Clone()
	h3tls.NextProtos = []string{http3.NextProtoH3}
	h3c = &http.Client{Timeout: lbTimeout, Transport: &http3.Transport{
		DisableCompression: true,
		TLSClientConfig:    h3tls,
		Dial: func(ctx context.Context, _ string, tc *tls.Config, qc *quic.Config) (quic.EarlyConnection, error) {
			return quic.DialAddrEarly(ctx, s.doh3Addr.String(), tc, qc)
		},
	}}

	return h2c, h3c
}

// lbIdlePeriod is longer than dnsserver.DefaultReadTimeout, the deadline the
// accept / read calls of the serving loops run with.
const lbIdlePeriod = dnsserver.DefaultReadTimeout + 700*time.Millisecond

// lbAfterIdle leaves all servers idle for lbIdlePeriod (one wait shared by all
// transports), then sends a well-formed query over every transport on a NEW
// connection; twice, so that the loops see a second expiry.  A transport
// alarms only if three attempts in a row (10 s limits each) get no matching
// answer.
func lbAfterIdle(r *vrt.Run, s *lbServers) (fs []vrt.Finding) {
	for round := 1; round <= 2; round++ {
		time.Sleep(lbIdlePeriod)
		// New HTTP connections too.
		s.h2, s.h3 = lbNewHTTPClients(s)
		for _, tr := range lbTransports {
			var last vrt.Finding
			ok := false
			for a := 0; a < lbAttempts && !ok; a++ {
				req := vdns.NewReq(uint16(0x7a00+round*16+a), "Ok.After-Idle.Example.", dns.TypeA, dns.ClassINET)
				if tr == "doq" {
					req.Id = 0
				}
				wire, _ := req.Pack()
				sub := lbCheckAnswer(r, tr, req, lbSend(s, tr, req, wire))
				r.Trans(1)
				if len(sub) == 0 {
					ok = true
				} else {
					last = sub[0]
				}
			}
			if ok {
				r.Class(fmt.Sprintf("loopback:%s answered on a new connection after idle period %d", tr, round))

				continue
			}
			fs = append(fs, vrt.F("loopback-"+tr+"/no-answer-after-idle-period",
				"after %d idle period(s) of %s (> DefaultReadTimeout) a well-formed query on a new connection got no matching answer in %d attempts: [%s] %s",
				round, lbIdlePeriod, lbAttempts, last.Key, last.Detail)...)
		}
		if len(fs) > 0 {
			break
		}
	}

	return fs
}

// lbHalfCloseOnce: one connection, two pipelined queries whose pipeline takes
// 200 ms, then the client closes its sending direction (shutdown(SHUT_WR) /
// TLS close_notify) and reads until the server closes.  It returns "" if both
// queries were answered.
func lbHalfCloseOnce(s *lbServers, t string) (detail string) {
	conn, err := lbDialStream(s, t == "dot")
	if err != nil {
		return "dial: " + err.Error()
	}
	defer conn.Close()
	var reqs []*dns.Msg
	var stream []byte
	for i := 0; i < 2; i++ {
		m := vdns.NewReq(uint16(0x7d00+i), fmt.Sprintf("Slow-%d.Half-Close.Example.", i), dns.TypeA, dns.ClassINET)
		w, _ := m.Pack()
		reqs, stream = append(reqs, m), append(stream, lbFrame(w)...)
	}
	if _, err = conn.Write(stream); err != nil {
		return "write: " + err.Error()
	}
	type closeWriter interface{ CloseWrite() error }
	cw, ok := conn.(closeWriter)
	if !ok {
		vrt.Fatalf("c01 loopback: %T cannot half-close", conn)
	}
	if err = cw.CloseWrite(); err != nil {
		return "half-close: " + err.Error()
	}
	_ = conn.SetReadDeadline(time.Now().Add(lbTimeout))
	data, rerr := io.ReadAll(conn)
	got := map[uint16]*dns.Msg{}
	for len(data) >= 2 {
		l := int(binary.BigEndian.Uint16(data))
		if len(data) < 2+l {
			break
		}
		m := &dns.Msg{}
		if m.Unpack(data[2:2+l]) == nil {
			got[m.Id] = m
		}
		data = data[2+l:]
	}
	for i, req := range reqs {
		m := got[req.Id]
		if m == nil {
			return fmt.Sprintf("query %d of 2 (%q), sent before the half-close, got no answer (read ended with %v, answers to ids %v)", i+1, req.Question[0].Name, rerr, lbKeys(got))
		}
		_, want := dnsserver.VerifC01Expect(req.Question[0])
		if echo := dnsserver.VerifC01Echo("x", req, m, false); len(echo) > 0 || !dnsserver.VerifC01Same(dnsserver.VerifC01TupleOf(m), want, false) {
			return fmt.Sprintf("query %d of 2: answer %s does not match", i+1, vdns.Canon(m, true))
		}
	}

	return ""
}

func lbKeys(m map[uint16]*dns.Msg) (ks []uint16) {
	for k := range m {
		ks = append(ks, k)
	}

	return ks
}

// lbHalfClose applies the three-attempts rule to lbHalfCloseOnce.
func lbHalfClose(r *vrt.Run, s *lbServers, t string) (fs []vrt.Finding) {
	var last string
	for a := 0; a < lbAttempts; a++ {
		last = lbHalfCloseOnce(s, t)
		r.Trans(2)
		if last == "" {
			r.Class(fmt.Sprintf("loopback:%s half-close -> both answered (attempt %d)", t, a+1))

			return nil
		}
	}

	return vrt.F("loopback-"+t+"/accepted-query-unanswered-after-half-close", "%d attempts: %s", lbAttempts, last)
}

// lbObs is what a client saw.
type lbObs struct {
	Msgs     []*dns.Msg
	JSON     []byte
	Status   int    // HTTP status
	Closed   bool   // EOF / stream or connection error observed
	Timeout  bool   // a read timed out: nothing is concluded from it
	Err      string // other client-side error
	Attempts int
}

func (o lbObs) String() string {
	switch {
	case len(o.Msgs) > 0:
		return vdns.Canon(o.Msgs[0], true)
	case o.JSON != nil:
		return fmt.Sprintf("json %.200s", o.JSON)
	case o.Status != 0:
		return "http " + strconv.Itoa(o.Status)
	case o.Closed:
		return "closed"
	case o.Timeout:
		return "timeout (not judged)"
	default:
		return "error: " + o.Err
	}
}

func lbIsTimeout(err error) bool {
	var ne net.Error

	return errors.As(err, &ne) && ne.Timeout()
}

func lbFrame(w []byte) []byte {
	return append(binary.BigEndian.AppendUint16(nil, uint16(len(w))), w...)
}

// lbUDP sends wire and waits for one datagram, up to three times.
func lbUDP(addr string, wire []byte) (obs lbObs) {
	conn, err := net.Dial("udp", addr)
	if err != nil {
		return lbObs{Err: err.Error()}
	}
	defer conn.Close()
	buf := make([]byte, 65535)
	for obs.Attempts = 1; obs.Attempts <= lbAttempts; obs.Attempts++ {
		if _, err = conn.Write(wire); err != nil {
			return lbObs{Err: err.Error()}
		}
		_ = conn.SetReadDeadline(time.Now().Add(lbTimeout))
		n, rerr := conn.Read(buf)
		if rerr != nil {
			if lbIsTimeout(rerr) {
				obs.Timeout = true

				continue
			}

			return lbObs{Err: rerr.Error()}
		}
		m := &dns.Msg{}
		if err = m.Unpack(buf[:n]); err != nil {
			return lbObs{Err: "undecodable datagram: " + err.Error()}
		}
		obs.Timeout = false
		obs.Msgs = []*dns.Msg{m}

		return obs
	}

	return obs
}

// lbUDPThenSentinel sends bad, then the sentinel on the same socket, and
// returns every datagram that arrived up to the sentinel's answer.
func lbUDPThenSentinel(addr string, bad, sentinel []byte, sentinelID uint16) (before []*dns.Msg, answered bool, err error) {
	conn, err := net.Dial("udp", addr)
	if err != nil {
		return nil, false, err
	}
	defer conn.Close()
	if _, err = conn.Write(bad); err != nil {
		return nil, false, err
	}
	buf := make([]byte, 65535)
	for a := 0; a < lbAttempts; a++ {
		if _, err = conn.Write(sentinel); err != nil {
			return before, false, err
		}
		for {
			_ = conn.SetReadDeadline(time.Now().Add(lbTimeout))
			n, rerr := conn.Read(buf)
			if rerr != nil {
				break
			}
			m := &dns.Msg{}
			if m.Unpack(buf[:n]) != nil {
				continue
			}
			if m.Id == sentinelID {
				return before, true, nil
			}
			before = append(before, m)
		}
	}

	return before, false, nil
}

// lbStream is a TCP or TLS connection.
func lbDialStream(s *lbServers, dot bool) (net.Conn, error) {
	d := &net.Dialer{Timeout: lbTimeout}
	if dot {
		return tls.DialWithDialer(d, "tcp", s.dotAddr, s.clientTLS)
	}

	return d.Dial("tcp", s.dnsAddr)
}

// lbStreamExchange writes one frame and reads one frame.
func lbStreamExchange(conn net.Conn, stream []byte) (obs lbObs) {
	if _, err := conn.Write(stream); err != nil {
		return lbObs{Err: err.Error()}
	}
	_ = conn.SetReadDeadline(time.Now().Add(lbTimeout))
	var l [2]byte
	if _, err := io.ReadFull(conn, l[:]); err != nil {
		if lbIsTimeout(err) {
			return lbObs{Timeout: true}
		}

		return lbObs{Closed: true}
	}
	body := make([]byte, binary.BigEndian.Uint16(l[:]))
	if _, err := io.ReadFull(conn, body); err != nil {
		return lbObs{Err: "short frame: " + err.Error()}
	}
	m := &dns.Msg{}
	if err := m.Unpack(body); err != nil {
		return lbObs{Err: "undecodable frame: " + err.Error()}
	}

	return lbObs{Msgs: []*dns.Msg{m}}
}

// lbOpaqueReader hides the length of a request body from net/http, so that the
// request is sent without a declared content length (HTTP/2 and HTTP/3: no
// content-length header, the body ends with END_STREAM / FIN).
type lbOpaqueReader struct{ io.Reader }

func lbHTTP(c *http.Client, method, target string, body []byte, json bool) (obs lbObs) {
	return lbHTTPLen(c, method, target, body, json, true)
}

func lbHTTPLen(c *http.Client, method, target string, body []byte, json, declared bool) (obs lbObs) {
	newBody := func() io.Reader {
		switch {
		case body == nil:
			return nil
		case declared:
			return bytes.NewReader(body)
		default:
			return lbOpaqueReader{bytes.NewReader(body)}
		}
	}
	rd := newBody()
	var last error
	for obs.Attempts = 1; obs.Attempts <= lbAttempts; obs.Attempts++ {
		req, err := http.NewRequest(method, "https://"+lbTLSName+target, rd)
		if err != nil {
			return lbObs{Err: err.Error()}
		}
		req.Header.Set("Content-Type", dnsserver.MimeTypeDoH)
		req.Header.Set("Accept", dnsserver.MimeTypeDoH)
		resp, err := c.Do(req)
		if err != nil {
			last = err
			rd = newBody()

			continue
		}
		data, err := io.ReadAll(resp.Body)
		_ = resp.Body.Close()
		if err != nil {
			return lbObs{Err: err.Error()}
		}
		obs.Status = resp.StatusCode
		if resp.StatusCode != http.StatusOK {
			return obs
		}
		if json {
			obs.JSON = data

			return obs
		}
		m := &dns.Msg{}
		if err = m.Unpack(data); err != nil {
			return lbObs{Status: 200, Err: "undecodable body: " + err.Error()}
		}
		obs.Msgs = []*dns.Msg{m}

		return obs
	}

	return lbObs{Err: "http: " + last.Error()}
}

// lbDoQ opens a connection and one stream, writes streamBytes with FIN and
// reads the stream to the end.
func lbDoQ(s *lbServers, streamBytes []byte) (obs lbObs) {
	tc := s.clientTLS.Clone()
	tc.NextProtos = []string{"doq"}
	ctx, cancel := context.WithTimeout(context.Background(), lbTimeout)
	defer cancel()
	conn, err := quic.DialAddr(ctx, s.doqAddr, tc, nil)
	if err != nil {
		return lbObs{Err: "dial: " + err.Error()}
	}
	defer func() { _ = conn.CloseWithError(0, "") }()
	st, err := conn.OpenStreamSync(ctx)
	if err != nil {
		return lbObs{Closed: true}
	}
	if _, err = st.Write(streamBytes); err != nil {
		return lbObs{Closed: true}
	}
	_ = st.Close()
	_ = st.SetReadDeadline(time.Now().Add(lbTimeout))
	data, err := io.ReadAll(st)
	if err != nil {
		if lbIsTimeout(err) {
			return lbObs{Timeout: true}
		}
		// Stream reset or connection closed by the server.
		return lbObs{Closed: true}
	}
	if len(data) == 0 {
		return lbObs{Closed: true}
	}
	if len(data) < 2 || int(binary.BigEndian.Uint16(data)) != len(data)-2 {
		return lbObs{Err: fmt.Sprintf("bad DoQ framing: %d octets, prefix %x", len(data), data[:min(2, len(data))])}
	}
	m := &dns.Msg{}
	if err = m.Unpack(data[2:]); err != nil {
		return lbObs{Err: "undecodable DoQ message: " + err.Error()}
	}

	return lbObs{Msgs: []*dns.Msg{m}}
}

func lbCrypt(s *lbServers, network string, req *dns.Msg) (obs lbObs) {
	client := &dnscrypt.Client{Timeout: lbTimeout, Net: network, UDPSize: 65000}
	stamp := dnsstamps.ServerStamp{
		ServerAddrStr: s.crypt.ServerAddr, ServerPk: s.crypt.ResolverPk, ProviderName: s.crypt.ProviderName,
		Proto: dnsstamps.StampProtoTypeDNSCrypt,
	}
	var last error
	for obs.Attempts = 1; obs.Attempts <= lbAttempts; obs.Attempts++ {
		ri, err := client.DialStamp(stamp)
		if err != nil {
			last = err

			continue
		}
		resp, err := client.Exchange(req, ri)
		if err != nil {
			last = err

			continue
		}
		obs.Msgs = []*dns.Msg{resp}

		return obs
	}
	if lbIsTimeout(last) || errors.Is(last, os.ErrDeadlineExceeded) {
		return lbObs{Timeout: true}
	}

	return lbObs{Err: "dnscrypt: " + last.Error()}
}

var lbTransports = []string{
	"udp", "tcp", "dot", "doh-post", "doh-get", "doh-json", "doh3-post", "doq", "dnscrypt-udp", "dnscrypt-tcp",
	// POST bodies whose length is not declared up front.
	"doh-post-nolen", "doh3-post-nolen",
}

// lbSend sends the well-formed query req (wire) over t.
func lbSend(s *lbServers, t string, req *dns.Msg, wire []byte) (obs lbObs) {
	switch t {
	case "udp":
		return lbUDP(s.dnsAddr, wire)
	case "tcp", "dot":
		conn, err := lbDialStream(s, t == "dot")
		if err != nil {
			return lbObs{Err: err.Error()}
		}
		defer conn.Close()

		return lbStreamExchange(conn, lbFrame(wire))
	case "doh-post":
		return lbHTTP(s.h2, http.MethodPost, dnsserver.PathDoH, wire, false)
	case "doh3-post":
		return lbHTTP(s.h3, http.MethodPost, dnsserver.PathDoH, wire, false)
	case "doh-post-nolen":
		return lbHTTPLen(s.h2, http.MethodPost, dnsserver.PathDoH, wire, false, false)
	case "doh3-post-nolen":
		return lbHTTPLen(s.h3, http.MethodPost, dnsserver.PathDoH, wire, false, false)
	case "doh-get":
		return lbHTTP(s.h2, http.MethodGet, dnsserver.PathDoH+"?dns="+base64.RawURLEncoding.EncodeToString(wire), nil, false)
	case "doh-json":
		q := req.Question[0]
		v := url.Values{"name": {q.Name}, "type": {strconv.Itoa(int(q.Qtype))}, "qc": {strconv.Itoa(int(q.Qclass))}}

		return lbHTTP(s.h2, http.MethodGet, dnsserver.PathJSON+"?"+v.Encode(), nil, true)
	case "doq":
		return lbDoQ(s, lbFrame(wire))
	case "dnscrypt-udp":
		return lbCrypt(s, "udp", req)
	case "dnscrypt-tcp":
		return lbCrypt(s, "tcp", req)
	}
	vrt.Fatalf("c01 loopback: unknown transport %q", t)

	return obs
}

// lbCase is one exchange (plus the sentinel) on one transport.
type lbCase struct {
	T    string `json:"t"`
	What string `json:"what"`
}

type lbItem struct {
	what string
	// req is set for well-formed queries.
	req *dns.Msg
	// bad is set for malformed messages; treatment is the documented one:
	// "drop", "NOTIMP" or "FORMERR".
	bad       []byte
	treatment string
}

func lbItems() (items []lbItem) {
	q := func(what, name string, qt uint16, edns uint16) {
		m := vdns.NewReq(uint16(0x7000+len(items)), name, qt, dns.ClassINET)
		if edns > 0 {
			m.SetEdns0(edns, false)
		}
		items = append(items, lbItem{what: what, req: m})
	}
	q("ok-a", "Ok.ExAmple.", dns.TypeA, 0)
	q("ok-aaaa-edns", "oK.example.", dns.TypeAAAA, 1232)
	q("long-name-txt", dnsserver.VerifC01LongName(), dns.TypeTXT, 0)
	q("nx", "Nx.Example.", dns.TypeA, 0)
	q("nodata-https", "nodata.example.", dns.TypeHTTPS, 4096)
	q("full", "full.example.", dns.TypeA, 0)
	q("big-no-edns", "BIG.example.", dns.TypeA, 0)
	q("big-edns-4096", "BIG.example.", dns.TypeA, 4096)
	q("err", "Err.example.", dns.TypeA, 0)
	q("any-ch", "Ok.ExAmple.", dns.TypeANY, 0)
	items[len(items)-1].req.Question[0].Qclass = dns.ClassCHAOS
	q("panic", "Panic.example.", dns.TypeA, 0)

	base, _ := vdns.NewReq(0x7101, "Ok.ExAmple.", dns.TypeA, dns.ClassINET).Pack()
	mut := func(what, treatment string, f func(w []byte) []byte) {
		w := f(append([]byte{}, base...))
		binary.BigEndian.PutUint16(w, uint16(0x7100+len(items)))
		items = append(items, lbItem{what: what, bad: w, treatment: treatment})
	}
	mut("response", "drop", func(w []byte) []byte { w[2] |= 0x80; return w })
	mut("opcode-7", "NOTIMP", func(w []byte) []byte { w[2] = w[2]&0x87 | 7<<3; return w })
	mut("qd-0", "FORMERR", func(w []byte) []byte { w[5] = 0; return w[:12] })
	mut("qd-2", "FORMERR", func(w []byte) []byte { w[5] = 2; return append(w, w[12:]...) })
	mut("question-cut", "drop", func(w []byte) []byte { return w[:len(w)-3] })

	return items
}

func lbSentinel(t string) (*dns.Msg, []byte) {
	m := vdns.NewReq(0x5e17, "Ok.Sentinel.Example.", dns.TypeA, dns.ClassINET)
	if t == "doq" {
		m.Id = 0
	}
	w, _ := m.Pack()

	return m, w
}

// lbCheckAnswer compares the answer to a well-formed query with H.
func lbCheckAnswer(r *vrt.Run, t string, req *dns.Msg, obs lbObs) (fs []vrt.Finding) {
	q := req.Question[0]
	kind, want := dnsserver.VerifC01Expect(q)
	where := "loopback-" + t
	class := func(s string) { r.Class("loopback:" + t + " " + kind + " -> " + s) }
	if kind == "silent" || kind == "panic" {
		// Nothing is required of the exchange itself; the sentinel follows.
		class(obs.String()[:min(12, len(obs.String()))])
		for _, m := range obs.Msgs {
			fs = append(fs, dnsserver.VerifC01Echo(where, req, m, false)...)
		}

		return fs
	}
	if obs.JSON != nil {
		class("json")
		status, name, qt, an, ex, err := dnsserver.VerifC01JSONSection(obs.JSON)
		if err != nil {
			return vrt.F(where+"/record-unparseable", "%v", err)
		}
		if name != q.Name || qt != q.Qtype {
			fs = append(fs, vrt.F(where+"/response-question-differs", "asked %q %d, JSON question %q %d", q.Name, q.Qtype, name, qt)...)
		}
		got := dnsserver.VerifC01Tuple{Rcode: status, An: an, Ns: want.Ns, Ex: ex}
		if !dnsserver.VerifC01Same(got, want, false) {
			fs = append(fs, vrt.F(where+"/answer-differs-from-seam", "want %s; JSON %s", want, got)...)
		}

		return fs
	}
	if len(obs.Msgs) != 1 {
		if obs.Timeout {
			// Three attempts of 10 s each.
			return vrt.F(where+"/no-response-to-query", "query %q: no response in %d attempts of %s", q.Name, lbAttempts, lbTimeout)
		}

		return vrt.F(where+"/no-response-to-query", "query %q: %s", q.Name, obs)
	}
	m := obs.Msgs[0]
	fs = append(fs, dnsserver.VerifC01Echo(where, req, m, false)...)
	got := dnsserver.VerifC01TupleOf(m)
	if m.Truncated {
		class("truncated")
		limit := 512
		if opt := req.IsEdns0(); opt != nil && int(opt.UDPSize()) > limit {
			limit = int(opt.UDPSize())
		}
		datagram := t == "udp" || t == "dnscrypt-udp"
		if full := dnsserver.VerifC01FullLen(req); !datagram || full+40 <= limit {
			fs = append(fs, vrt.F(where+"/truncated-without-need", "query %q: TC although the response is %d octets (limit %d)", q.Name, full, limit)...)
		}
		if !dnsserver.VerifC01Same(got, want, true) {
			fs = append(fs, vrt.F(where+"/answer-differs-from-seam", "truncated: want a part of %s, got %s", want, got)...)
		}

		return fs
	}
	class("full")
	if !dnsserver.VerifC01Same(got, want, false) {
		fs = append(fs, vrt.F(where+"/answer-differs-from-seam", "query %q: want %s, got %s", q.Name, want, got)...)
	}

	return fs
}

// lbCheckBad judges the treatment of a malformed message where the transport
// makes it observable.
func lbCheckBad(r *vrt.Run, t string, it lbItem, obs lbObs) (fs []vrt.Finding) {
	where := "loopback-" + t
	ref := &dns.Msg{}
	var refp *dns.Msg
	if ref.Unpack(it.bad) == nil {
		refp = ref
	}
	r.Class("loopback:" + t + " bad " + it.what + " -> " + obs.String()[:min(40, len(obs.String()))])
	if obs.Timeout || obs.Err != "" && len(obs.Msgs) == 0 {
		// Not judged: absence by timeout, or a client-side failure that says
		// nothing about the server (the sentinel decides about liveness).
		return nil
	}
	if len(obs.Msgs) == 0 {
		// Closed / non-200: an allowed treatment of every malformed message
		// on the stream and HTTP transports.
		return nil
	}
	m := obs.Msgs[0]
	if refp != nil {
		fs = append(fs, dnsserver.VerifC01Echo(where, refp, m, false)...)
	}
	tu := dnsserver.VerifC01TupleOf(m)
	ok := false
	switch it.treatment {
	case "NOTIMP":
		ok = tu.Rcode == dns.RcodeNotImplemented
	case "FORMERR":
		ok = tu.Rcode == dns.RcodeFormatError
	case "drop":
		// Documented substitute on DoQ: SERVFAIL.
		ok = t == "doq" && tu.Rcode == dns.RcodeServerFailure
	}
	if !ok || len(tu.An)+len(tu.Ns)+len(tu.Ex) > 0 {
		fs = append(fs, vrt.F(where+"/treatment-not-documented", "malformed %s (documented: %s): got %s", it.what, it.treatment, vdns.Canon(m, true))...)
	}

	return fs
}

// lbDoQLongLivedOnce reuses ONE DoQ connection for n sequential queries.  For
// each query a stream is opened, the query is written, and the send side is
// closed in a separate step a few milliseconds later, so that the STREAM FIN
// travels in its own frame.  It returns "" if every query was answered with
// its own question and H's records, else a key suffix and a detail.
func lbDoQLongLivedOnce(addr string, clientTLS *tls.Config, n int) (key, detail string) {
	tc := clientTLS.Clone()
	tc.NextProtos = []string{"doq"}
	dctx, dcancel := context.WithTimeout(context.Background(), lbTimeout)
	defer dcancel()
	conn, err := quic.DialAddr(dctx, addr, tc, nil)
	if err != nil {
		return "long-lived-connection-query-unanswered", "dial: " + err.Error()
	}
	defer func() { _ = conn.CloseWithError(0, "") }()
	for i := 0; i < n; i++ {
		// RFC 9250 4.2.1: Message ID 0; the questions differ instead.
		req := vdns.NewReq(0, fmt.Sprintf("Ok-%03d.Long-Lived.Example.", i), dns.TypeA, dns.ClassINET)
		wire, _ := req.Pack()
		ctx, cancel := context.WithTimeout(context.Background(), lbTimeout)
		st, oerr := conn.OpenStreamSync(ctx)
		cancel()
		if oerr != nil {
			return "long-lived-connection-query-unanswered", fmt.Sprintf("query %d of %d on one connection: no stream available within %s: %v", i+1, n, lbTimeout, oerr)
		}
		if _, err = st.Write(lbFrame(wire)); err != nil {
			return "long-lived-connection-query-unanswered", fmt.Sprintf("query %d of %d: write: %v", i+1, n, err)
		}
		time.Sleep(5 * time.Millisecond)
		_ = st.Close()
		_ = st.SetReadDeadline(time.Now().Add(lbTimeout))
		data, rerr := io.ReadAll(st)
		if rerr != nil || len(data) < 2 {
			return "long-lived-connection-query-unanswered", fmt.Sprintf("query %d of %d on one connection: no answer within %s (%d octets, %v)", i+1, n, lbTimeout, len(data), rerr)
		}
		m := &dns.Msg{}
		if int(binary.BigEndian.Uint16(data)) != len(data)-2 || m.Unpack(data[2:]) != nil {
			return "long-lived-connection-answer-differs", fmt.Sprintf("query %d of %d: undecodable answer %x", i+1, n, data[:min(len(data), 40)])
		}
		_, want := dnsserver.VerifC01Expect(req.Question[0])
		if echo := dnsserver.VerifC01Echo("x", req, m, false); len(echo) > 0 || !dnsserver.VerifC01Same(dnsserver.VerifC01TupleOf(m), want, false) {
			return "long-lived-connection-answer-differs", fmt.Sprintf("query %d of %d asked %q: got %s", i+1, n, req.Question[0].Name, vdns.Canon(m, true))
		}
	}

	return "", ""
}

var lbLimitedDoQAddr string

// lbLimitedDoQ starts a DoQ server with QUIC limits enabled and a small
// per-peer stream limit.
func lbLimitedDoQ(limit int) string {
	if lbLimitedDoQAddr != "" {
		return lbLimitedDoQAddr
	}
	conf := dnsservertest.CreateServerTLSConfig(lbTLSName)
	conf.NextProtos = dnsserver.NextProtoDoQ
	srv := dnsserver.NewServerQUIC(dnsserver.ConfigQUIC{
		TLSConfig:         conf,
		ConfigBase:        dnsserver.ConfigBase{Name: "c01-doq-limited", Addr: "127.0.0.1:0", Handler: dnsserver.VerifC01Handler},
		QUICLimitsEnabled: true,
		MaxStreamsPerPeer: limit,
	})
	if err := srv.Start(context.Background()); err != nil {
		vrt.Fatalf("c01 loopback: starting the limited DoQ server: %v", err)
	}
	lbLimitedDoQAddr = srv.LocalUDPAddr().String()

	return lbLimitedDoQAddr
}

// lbLongLived runs the long-lived-connection scenario up to three times; it
// alarms only if all three attempts fail in the same way, so that machine
// load cannot raise an alarm.
func lbLongLived(r *vrt.Run, s *lbServers, what string) (fs []vrt.Finding) {
	addr, n := s.doqAddr, 130
	if what == "long-lived-limit-8" {
		addr, n = lbLimitedDoQ(8), 40
	}
	var keys, details []string
	for a := 0; a < lbAttempts; a++ {
		key, detail := lbDoQLongLivedOnce(addr, s.clientTLS, n)
		r.Trans(n)
		if key == "" {
			r.Class(fmt.Sprintf("loopback:doq %s -> all %d answered (attempt %d)", what, n, a+1))

			return nil
		}
		keys, details = append(keys, key), append(details, detail)
	}
	for _, k := range keys {
		if k != keys[0] {
			r.Class("loopback:doq " + what + " -> three different failures (not judged)")

			return nil
		}
	}

	return vrt.F("loopback-doq/"+keys[0], "%s, %d attempts: %s", what, lbAttempts, details[len(details)-1])
}

func lbRun(t *testing.T, r *vrt.Run, c lbCase) (fs []vrt.Finding) {
	s := lbStart(t)
	if c.T == "doq" && (c.What == "long-lived-130" || c.What == "long-lived-limit-8") {
		return lbLongLived(r, s, c.What)
	}
	if c.What == "half-close" {
		return lbHalfClose(r, s, c.T)
	}
	if c.T == "all" && c.What == "after-idle" {
		return lbAfterIdle(r, s)
	}
	if c.T == "doq" && (c.What == "accept-timeouts-1" || c.What == "accept-timeouts-2") {
		conf := dnsservertest.CreateServerTLSConfig(lbTLSName)
		conf.NextProtos = dnsserver.NextProtoDoQ
		r.Trans(2)

		return dnsserver.VerifC01QUICAcceptTimeouts(r, conf, int(c.What[len(c.What)-1]-'0'))
	}
	var it lbItem
	for _, x := range lbItems() {
		if x.what == c.What {
			it = x
		}
	}
	if it.what == "" {
		vrt.Fatalf("c01 loopback: unknown item %q", c.What)
	}
	where := "loopback-" + c.T
	sent, sentWire := lbSentinel(c.T)
	checkSentinel := func(obs lbObs) {
		sub := lbCheckAnswer(r, c.T, sent, obs)
		if len(sub) > 0 {
			fs = append(fs, vrt.F(where+"/sentinel-not-answered", "after %s: [%s] %s", c.What, sub[0].Key, sub[0].Detail)...)
		}
	}
	r.Trans(2)

	if it.req != nil {
		req := it.req.Copy()
		if c.T == "doq" {
			req.Id = 0
		}
		wire, _ := req.Pack()
		kind, _ := dnsserver.VerifC01Expect(req.Question[0])
		quiet := kind == "silent" || kind == "panic"
		if quiet && c.T == "udp" {
			// Nothing is awaited; whatever arrives before the sentinel's
			// answer must at least echo the request.
			before, answered, err := lbUDPThenSentinel(s.dnsAddr, wire, sentWire, sent.Id)
			if err != nil {
				vrt.Fatalf("c01 loopback: udp: %v", err)
			}
			fs = append(fs, lbCheckAnswer(r, c.T, req, lbObs{Msgs: before, Closed: true})...)
			if !answered {
				fs = append(fs, vrt.F(where+"/sentinel-not-answered", "after %s: no answer to the sentinel in %d attempts", c.What, lbAttempts)...)
			}

			return fs
		}
		if quiet && (c.T == "tcp" || c.T == "dot") {
			// The connection is either closed or left open without a
			// response; do not wait on it.
			conn, err := lbDialStream(s, c.T == "dot")
			if err != nil {
				vrt.Fatalf("c01 loopback: dial %s: %v", c.T, err)
			}
			_, _ = conn.Write(lbFrame(wire))
			_ = conn.Close()
			r.Class("loopback:" + c.T + " " + kind + " -> not awaited")
			checkSentinel(lbSend(s, c.T, sent, sentWire))

			return fs
		}
		if c.T == "tcp" || c.T == "dot" {
			// Query and sentinel on one connection.
			conn, err := lbDialStream(s, c.T == "dot")
			if err != nil {
				vrt.Fatalf("c01 loopback: dial %s: %v", c.T, err)
			}
			defer conn.Close()
			first := lbStreamExchange(conn, lbFrame(wire))
			fs = append(fs, lbCheckAnswer(r, c.T, req, first)...)
			if len(first.Msgs) == 1 {
				checkSentinel(lbStreamExchange(conn, lbFrame(sentWire)))

				return fs
			}
		} else {
			fs = append(fs, lbCheckAnswer(r, c.T, req, lbSend(s, c.T, req, wire))...)
		}
		checkSentinel(lbSend(s, c.T, sent, sentWire))

		return fs
	}

	switch c.T {
	case "udp":
		if it.treatment != "drop" {
			// A response is documented: await it.
			obs := lbUDP(s.dnsAddr, it.bad)
			if len(obs.Msgs) == 0 {
				fs = append(fs, vrt.F(where+"/treatment-not-documented", "malformed %s (documented: %s): %s after %d attempts", it.what, it.treatment, obs, lbAttempts)...)
			} else {
				fs = append(fs, lbCheckBad(r, c.T, it, obs)...)
			}

			break
		}
		before, answered, err := lbUDPThenSentinel(s.dnsAddr, it.bad, sentWire, sent.Id)
		if err != nil {
			vrt.Fatalf("c01 loopback: udp: %v", err)
		}
		obs := lbObs{Msgs: before}
		if len(before) == 0 {
			obs.Closed = true // nothing arrived before the sentinel's answer
		}
		if len(before) > 0 {
			fs = append(fs, vrt.F(where+"/treatment-not-documented", "malformed %s must be dropped; got %s before the sentinel's answer", it.what, vdns.Canon(before[0], true))...)
		} else {
			r.Class("loopback:udp bad " + it.what + " -> nothing before the sentinel's answer")
		}
		_ = obs
		if !answered {
			fs = append(fs, vrt.F(where+"/sentinel-not-answered", "after %s: no answer to the sentinel in %d attempts", c.What, lbAttempts)...)
		}

		return fs
	case "tcp", "dot":
		conn, err := lbDialStream(s, c.T == "dot")
		if err != nil {
			vrt.Fatalf("c01 loopback: dial %s: %v", c.T, err)
		}
		obs := lbStreamExchange(conn, lbFrame(it.bad))
		_ = conn.Close()
		fs = append(fs, lbCheckBad(r, c.T, it, obs)...)
	case "doh-post":
		fs = append(fs, lbCheckBad(r, c.T, it, lbHTTP(s.h2, http.MethodPost, dnsserver.PathDoH, it.bad, false))...)
	case "doh3-post":
		fs = append(fs, lbCheckBad(r, c.T, it, lbHTTP(s.h3, http.MethodPost, dnsserver.PathDoH, it.bad, false))...)
	case "doh-post-nolen":
		fs = append(fs, lbCheckBad(r, c.T, it, lbHTTPLen(s.h2, http.MethodPost, dnsserver.PathDoH, it.bad, false, false))...)
	case "doh3-post-nolen":
		fs = append(fs, lbCheckBad(r, c.T, it, lbHTTPLen(s.h3, http.MethodPost, dnsserver.PathDoH, it.bad, false, false))...)
	case "doh-get":
		target := dnsserver.PathDoH + "?dns=" + base64.RawURLEncoding.EncodeToString(it.bad)
		fs = append(fs, lbCheckBad(r, c.T, it, lbHTTP(s.h2, http.MethodGet, target, nil, false))...)
	case "doq":
		fs = append(fs, lbCheckBad(r, c.T, it, lbDoQ(s, lbFrame(it.bad)))...)
	default:
		vrt.Fatalf("c01 loopback: bad case %+v", c)
	}
	checkSentinel(lbSend(s, c.T, sent, sentWire))

	return fs
}

func TestVerifC01Loopback(t *testing.T) {
	log.SetOutput(io.Discard)
	r := vrt.Start("C01")
	items := lbItems()
	r.Bound("loopback_transports", len(lbTransports))
	r.Bound("loopback_items", len(items))
	vrt.Part(r, "loopback",
		func(emit func(lbCase)) {
			for _, tr := range lbTransports {
				for _, it := range items {
					crypt := tr == "dnscrypt-udp" || tr == "dnscrypt-tcp"
					switch {
					case it.bad != nil && (crypt || tr == "doh-json"):
						// DNSCrypt: the client library builds the message;
						// JSON: no wire input.
						continue
					case it.what == "panic" && crypt:
						// Would end the harness process on a tree without a
						// recover in dnsCryptHandler.ServeDNS; covered by
						// tier B (key dnscrypt-*/panic-escapes).
						continue
					}
					emit(lbCase{T: tr, What: it.what})
				}
			}
			// One DoQ connection reused for more queries than the stream
			// limit (100 by default; 8 on a server with QUIC limits enabled).
			emit(lbCase{T: "doq", What: "long-lived-130"})
			emit(lbCase{T: "doq", What: "long-lived-limit-8"})
			// The real acceptQUICConn on a real quic-go listener whose Accept
			// timed out k times before a client connects.
			emit(lbCase{T: "doq", What: "accept-timeouts-1"})
			emit(lbCase{T: "doq", What: "accept-timeouts-2"})
			// A client that sends two pipelined queries, half-closes and then
			// reads; the pipeline takes 200 ms.
			emit(lbCase{T: "tcp", What: "half-close"})
			emit(lbCase{T: "dot", What: "half-close"})
			// Idle for longer than the accept / read deadline, then a new
			// connection on every transport; twice.
			emit(lbCase{T: "all", What: "after-idle"})
		},
		func(c lbCase) []vrt.Finding { return lbRun(t, r, c) })
	r.Finish()
	os.Exit(0)
}
