//go:build verif

package dnsserver

// C01 — every accepted query gets exactly one matching answer on every
// transport; everything else gets the documented FORMERR / NOTIMP / drop
// treatment, cannot take a listener down and cannot elicit a response that
// carries another ID or question.
//
// This file: the deterministic handler H, the oracle that restates the
// property, and tier A (exhaustive enumeration at the byte seam
// ServerBase.serveDNS).  Tier B (all transports) lives in
// c01_transports_test.go.

import (
	"context"
	"encoding/binary"
	"encoding/json"
	"errors"
	"fmt"
	"io"
	"net"
	"os"
	"strings"
	"testing"
	"time"

	"github.com/AdguardTeam/AdGuardDNS/internal/dnsserver/zzverif/vdns"
	"github.com/AdguardTeam/AdGuardDNS/internal/dnsserver/zzverif/vrt"
	"github.com/AdguardTeam/golibs/log"
	"github.com/miekg/dns"
)

// ---- Handler H ---------------------------------------------------------------

// Kinds of behaviour of H.
const (
	c01KindAnswer = "answer"
	c01KindError  = "error"
	c01KindSilent = "silent"
	c01KindPanic  = "panic"
)

// c01Result is what H produces for a question.  It is a pure function of the
// lower-cased name, the type and the class.
type c01Result struct {
	Kind  string
	Rcode int
	An    []dns.RR
	Ns    []dns.RR
	Ex    []dns.RR
}

func c01Hdr(name string, t uint16, ttl uint32) dns.RR_Header {
	return dns.RR_Header{Name: name, Rrtype: t, Class: dns.ClassINET, Ttl: ttl}
}

func c01SOA(zone string) dns.RR {
	return &dns.SOA{
		Hdr: c01Hdr(zone, dns.TypeSOA, 900), Ns: "ns1.c01.test.", Mbox: "hostmaster.c01.test.",
		Serial: 2024010101, Refresh: 7200, Retry: 900, Expire: 1209600, Minttl: 300,
	}
}

// c01H is the resolver pipeline of the check.  The first label of the
// lower-cased name selects the behaviour; the records depend on the name, the
// type and the class, so that a response built for another question is
// recognisable.
func c01H(qname string, qt, qc uint16) (res c01Result) {
	name := strings.ToLower(qname)
	// Two octets derived from everything H may depend on.
	sum := uint32(qc)*31 + uint32(qt)*7
	for i := 0; i < len(name); i++ {
		sum = sum*131 + uint32(name[i])
	}
	a := func(i int) dns.RR {
		return &dns.A{Hdr: c01Hdr(name, dns.TypeA, 300), A: net.IPv4(10, byte(sum>>8), byte(sum), byte(i+1)).To4()}
	}
	aaaa := func() dns.RR {
		return &dns.AAAA{Hdr: c01Hdr(name, dns.TypeAAAA, 200), AAAA: net.IP{0x20, 1, 0xd, 0xb8, 0, 0, 0, 0, 0, 0, 0, 0, 0, 0, byte(sum >> 8), byte(sum)}}
	}
	txt := func(i int) dns.RR {
		return &dns.TXT{Hdr: c01Hdr(name, dns.TypeTXT, 100), Txt: []string{fmt.Sprintf("c01 %08x %02d some text to make the record a little longer", sum, i)}}
	}
	zone := "c01.test."

	res = c01Result{Kind: c01KindAnswer, Rcode: dns.RcodeSuccess}
	switch {
	case strings.HasPrefix(name, "nx"):
		res.Rcode = dns.RcodeNameError
		res.Ns = []dns.RR{c01SOA(zone)}
	case strings.HasPrefix(name, "nodata"):
		res.Ns = []dns.RR{c01SOA(zone)}
	case strings.HasPrefix(name, "big"):
		if qt == dns.TypeTXT {
			for i := 0; i < 30; i++ {
				res.An = append(res.An, txt(i))
			}
		} else {
			for i := 0; i < 60; i++ {
				res.An = append(res.An, a(i))
			}
		}
	case strings.HasPrefix(name, "err"):
		res = c01Result{Kind: c01KindError}
	case strings.HasPrefix(name, "silent"):
		res = c01Result{Kind: c01KindSilent}
	case strings.HasPrefix(name, "panic"):
		res = c01Result{Kind: c01KindPanic}
	case strings.HasPrefix(name, "full"):
		res.An = []dns.RR{a(0)}
		res.Ns = []dns.RR{&dns.NS{Hdr: c01Hdr(zone, dns.TypeNS, 3600), Ns: "ns1.c01.test."}}
		res.Ex = []dns.RR{&dns.A{Hdr: c01Hdr("ns1.c01.test.", dns.TypeA, 3600), A: net.IPv4(192, 0, 2, byte(sum)).To4()}}
	default:
		switch qt {
		case dns.TypeA:
			res.An = []dns.RR{a(0), a(1)}
		case dns.TypeAAAA:
			res.An = []dns.RR{aaaa()}
		case dns.TypeTXT:
			res.An = []dns.RR{txt(0)}
		case dns.TypeANY:
			res.An = []dns.RR{a(0), txt(0)}
		case dns.TypeHTTPS:
			res.An = []dns.RR{&dns.HTTPS{SVCB: dns.SVCB{
				Hdr: c01Hdr(name, dns.TypeHTTPS, 60), Priority: 1, Target: ".",
				Value: []dns.SVCBKeyValue{&dns.SVCBAlpn{Alpn: []string{"h2", "h3"}}},
			}}}
		default:
			res.Ns = []dns.RR{c01SOA(zone)}
		}
	}

	return res
}

// c01Handler is H as a [Handler].
type c01Handler struct{}

// ServeDNS implements the [Handler] interface for c01Handler.
func (c01Handler) ServeDNS(ctx context.Context, rw ResponseWriter, req *dns.Msg) (err error) {
	if len(req.Question) == 0 {
		// Unreachable on a tree that checks the section counts: the pipeline
		// refuses to invent a question.
		resp := (&dns.Msg{}).SetRcode(req, dns.RcodeRefused)

		return rw.WriteMsg(ctx, req, resp)
	}
	q := req.Question[0]
	if strings.HasPrefix(strings.ToLower(q.Name), "slow") {
		// A pipeline that takes a while (loopback half-close scenario); the
		// result is H's as for any other name.
		time.Sleep(200 * time.Millisecond)
	}
	res := c01H(q.Name, q.Qtype, q.Qclass)
	switch res.Kind {
	case c01KindError:
		return errors.New("c01: scripted handler error")
	case c01KindSilent:
		return nil
	case c01KindPanic:
		panic("c01: scripted handler panic")
	}
	resp := (&dns.Msg{}).SetReply(req)
	resp.Rcode = res.Rcode
	resp.RecursionAvailable = true
	resp.Answer, resp.Ns, resp.Extra = res.An, res.Ns, res.Ex

	return rw.WriteMsg(ctx, req, resp)
}

// c01Tuple is the part of a response the property speaks about.
type c01Tuple struct {
	Rcode int
	An    []string
	Ns    []string
	Ex    []string
}

func c01TupleOf(m *dns.Msg) c01Tuple {
	return c01Tuple{
		Rcode: m.Rcode,
		An:    vdns.Section(m.Answer, true, false),
		Ns:    vdns.Section(m.Ns, true, false),
		Ex:    vdns.Section(m.Extra, true, false),
	}
}

func c01TupleOfResult(res c01Result) c01Tuple {
	if res.Kind != c01KindAnswer {
		return c01Tuple{Rcode: dns.RcodeServerFailure}
	}

	return c01Tuple{
		Rcode: res.Rcode,
		An:    vdns.Section(res.An, true, false),
		Ns:    vdns.Section(res.Ns, true, false),
		Ex:    vdns.Section(res.Ex, true, false),
	}
}

func c01SameStrings(a, b []string) bool {
	if len(a) != len(b) {
		return false
	}
	for i := range a {
		if a[i] != b[i] {
			return false
		}
	}

	return true
}

func (t c01Tuple) equal(o c01Tuple) bool {
	return t.Rcode == o.Rcode && c01SameStrings(t.An, o.An) && c01SameStrings(t.Ns, o.Ns) && c01SameStrings(t.Ex, o.Ex)
}

func (t c01Tuple) String() string {
	return fmt.Sprintf("rcode=%s an=%s ns=%s ex=%s", dns.RcodeToString[t.Rcode], c01Brief(t.An), c01Brief(t.Ns), c01Brief(t.Ex))
}

// c01Brief abbreviates a section for messages.
func c01Brief(rrs []string) string {
	switch len(rrs) {
	case 0:
		return "[]"
	case 1, 2:
		return fmt.Sprintf("%.150q", rrs)
	default:
		return fmt.Sprintf("[%.150q ... %d records]", rrs[0], len(rrs))
	}
}

func (t c01Tuple) empty() bool { return len(t.An)+len(t.Ns)+len(t.Ex) == 0 }

// ---- Oracle -------------------------------------------------------------------

// Treatments a message may get.
const (
	c01TNone    = "none"    // nothing written
	c01TNotImp  = "NOTIMP"  // exactly one NOTIMP without records
	c01TFormErr = "FORMERR" // exactly one FORMERR without records
	c01TH       = "H"       // exactly one response equal to H(question); SERVFAIL without records if H errs
	c01TOther   = "other"   // exactly one response that is none of the above
	c01TMany    = "many"    // more than one response
)

// c01Spec is what the property statement says about one wire message.
type c01Spec struct {
	// Ref is the message as dns.Msg.Unpack decodes it; nil if not decodable.
	Ref *dns.Msg
	// Class names the clause of the statement that applies.
	Class string
	// Allowed is the set of treatments the statement and the repository's
	// documentation (comments of acceptMsg, serveDNS) allow.
	Allowed map[string]bool
	// H is the pipeline's result when the message is an acceptable query.
	H c01Result
}

func c01Set(ts ...string) map[string]bool {
	m := map[string]bool{}
	for _, t := range ts {
		m[t] = true
	}

	return m
}

// c01Classify restates the property for one wire message.
//
//   - not decodable (dns.Msg.Unpack fails)           -> dropped
//   - QR=1                                           -> dropped
//   - opcode unassigned (3, 6..15)                   -> NOTIMP
//     opcode IQUERY/STATUS/UPDATE                    -> NOTIMP, or treated as a supported opcode
//     opcode NOTIFY                                  -> treated as a query (documented), or NOTIMP
//   - qdcount != 1, ancount > 1, nscount > 1         -> FORMERR (documented in acceptMsg)
//     ancount == 1 or nscount == 1                   -> accepted (documented: NOTIFY, IXFR) or FORMERR
//   - otherwise                                      -> H(question)
//
// When several clauses apply (except QR=1, which always wins) any of their
// treatments is accepted.
func c01Classify(wire []byte) (sp c01Spec) {
	ref := &dns.Msg{}
	if err := ref.Unpack(wire); err != nil {
		return c01Spec{Class: "undecodable", Allowed: c01Set(c01TNone)}
	}
	sp.Ref = ref
	if ref.Response {
		sp.Class, sp.Allowed = "response", c01Set(c01TNone)

		return sp
	}
	sp.Allowed = map[string]bool{}
	var cls []string
	opStrict, opLoose := false, false
	switch ref.Opcode {
	case dns.OpcodeQuery:
	case dns.OpcodeNotify:
		opLoose = true
	case dns.OpcodeIQuery, dns.OpcodeStatus, dns.OpcodeUpdate:
		opLoose = true
	default:
		opStrict = true
	}
	countsStrict := len(ref.Question) != 1 || len(ref.Answer) > 1 || len(ref.Ns) > 1
	countsLoose := !countsStrict && (len(ref.Answer) == 1 || len(ref.Ns) == 1)
	if opStrict {
		cls = append(cls, "opcode-unassigned")
		sp.Allowed[c01TNotImp] = true
	}
	if opLoose {
		cls = append(cls, "opcode-"+dns.OpcodeToString[ref.Opcode])
		sp.Allowed[c01TNotImp] = true
	}
	if countsStrict {
		cls = append(cls, "counts-wrong")
		sp.Allowed[c01TFormErr] = true
	}
	if countsLoose {
		cls = append(cls, "counts-an-or-ns-1")
		sp.Allowed[c01TFormErr] = true
	}
	if !opStrict && !countsStrict {
		q := ref.Question[0]
		sp.H = c01H(q.Name, q.Qtype, q.Qclass)
		switch sp.H.Kind {
		case c01KindSilent:
			sp.Allowed[c01TNone] = true
		case c01KindPanic:
			// The statement only says the server must survive.
			sp.Allowed[c01TNone] = true
			sp.Allowed[c01TH] = true
		default:
			sp.Allowed[c01TH] = true
		}
		cls = append(cls, "query-"+sp.H.Kind)
	}
	sp.Class = strings.Join(cls, "+")

	return sp
}

// c01Treatment names the treatment a list of responses amounts to.
func c01Treatment(sp c01Spec, resps []*dns.Msg) string {
	switch len(resps) {
	case 0:
		return c01TNone
	case 1:
	default:
		return c01TMany
	}
	t := c01TupleOf(resps[0])
	if sp.H.Kind != "" && t.equal(c01TupleOfResult(sp.H)) {
		return c01TH
	}
	if t.empty() && t.Rcode == dns.RcodeNotImplemented {
		return c01TNotImp
	}
	if t.empty() && t.Rcode == dns.RcodeFormatError {
		return c01TFormErr
	}

	return c01TOther
}

// c01EchoFindings checks the clauses that hold for every response whatever
// the class: it is a response, it carries the request's ID and, if the
// request had a question, that question with its case preserved.  ignoreID is
// for transports that define the ID themselves.
func c01EchoFindings(where string, ref *dns.Msg, wire []byte, resp *dns.Msg, ignoreID bool) (fs []vrt.Finding) {
	if !resp.Response {
		fs = append(fs, vrt.F(where+"/response-qr-clear", "a message without the QR bit was sent as a response: %s", vdns.Canon(resp, true))...)
	}
	var id uint16
	var qs []dns.Question
	switch {
	case ref != nil:
		id, qs = ref.Id, ref.Question
	case len(wire) >= 2:
		id = binary.BigEndian.Uint16(wire)
	}
	if !ignoreID && (ref != nil || len(wire) >= 2) && resp.Id != id {
		fs = append(fs, vrt.F(where+"/response-id-differs", "request id %d, response id %d (%s)", id, resp.Id, vdns.Canon(resp, true))...)
	}
	switch {
	case len(qs) == 0:
		if len(resp.Question) != 0 {
			fs = append(fs, vrt.F(where+"/response-question-differs", "request without a question, response carries %q", vdns.Question(resp))...)
		}
	case len(resp.Question) == 1 && resp.Question[0] == qs[0]:
		// The request's (first) question, case preserved.
	case len(resp.Question) == len(qs) && vdns.Question(resp) == vdns.Question(&dns.Msg{Question: qs}):
		// All questions echoed.
	default:
		fs = append(fs, vrt.F(where+"/response-question-differs", "request question %q, response question %q",
			vdns.Question(&dns.Msg{Question: qs}), vdns.Question(resp))...)
	}

	return fs
}

// c01TreatmentFindings compares the observed treatment with the allowed set.
func c01TreatmentFindings(where string, sp c01Spec, got string, resps []*dns.Msg) (fs []vrt.Finding) {
	if got == c01TMany {
		return vrt.F(where+"/two-responses", "%d responses to one message (class %s): %s | %s", len(resps), sp.Class,
			vdns.Canon(resps[0], true), vdns.Canon(resps[1], true))
	}
	if sp.Allowed[got] {
		return nil
	}
	desc := "nothing"
	if len(resps) == 1 {
		desc = vdns.Canon(resps[0], true)
	}
	var key string
	switch {
	case sp.Ref == nil:
		key = "undecodable-answered"
	case sp.Ref.Response:
		key = "response-answered"
	case sp.Allowed[c01TH] && got == c01TNone:
		key = "no-response-to-query"
	case sp.Allowed[c01TH] && sp.H.Kind == c01KindError && len(sp.Allowed) == 1:
		key = "handler-error-not-servfail"
	case sp.Allowed[c01TH] && len(sp.Allowed) == 1:
		key = "answer-differs-from-handler"
	case sp.H.Kind == c01KindSilent && len(sp.Allowed) == 1:
		key = "silent-handler-answered"
	case sp.Allowed[c01TNotImp] && !sp.Allowed[c01TFormErr] && !sp.Allowed[c01TH]:
		key = "opcode-not-notimp"
	case sp.Allowed[c01TFormErr] && !sp.Allowed[c01TNotImp] && !sp.Allowed[c01TH]:
		key = "counts-not-formerr"
	default:
		key = "treatment-not-documented"
	}
	want := ""
	if sp.Allowed[c01TH] {
		want = " H=" + c01TupleOfResult(sp.H).String()
	}

	return vrt.F(where+"/"+key, "class %s allows %v%s; got %s: %s", sp.Class, c01Keys(sp.Allowed), want, got, desc)
}

func c01Keys(m map[string]bool) (ks []string) {
	for _, k := range []string{c01TNone, c01TNotImp, c01TFormErr, c01TH} {
		if m[k] {
			ks = append(ks, k)
		}
	}

	return ks
}

// ---- The seam -------------------------------------------------------------------

var (
	c01UDPLocal  = &net.UDPAddr{IP: net.IP{192, 0, 2, 53}, Port: 53}
	c01UDPRemote = &net.UDPAddr{IP: net.IP{198, 51, 100, 7}, Port: 40000}
	c01TCPLocal  = &net.TCPAddr{IP: net.IP{192, 0, 2, 53}, Port: 53}
	c01TCPRemote = &net.TCPAddr{IP: net.IP{198, 51, 100, 7}, Port: 40000}
)

// c01RecRW is the recording ResponseWriter of tier A.  Like the real writers
// it packs the response; the snapshot is what a client would decode.
type c01RecRW struct {
	resps []*dns.Msg
}

func (w *c01RecRW) LocalAddr() net.Addr  { return c01UDPLocal }
func (w *c01RecRW) RemoteAddr() net.Addr { return c01UDPRemote }
func (w *c01RecRW) WriteMsg(_ context.Context, _, resp *dns.Msg) (err error) {
	b, err := resp.Pack()
	if err != nil {
		return fmt.Errorf("c01 recorder: packing: %w", err)
	}
	snap := &dns.Msg{}
	if err = snap.Unpack(b); err != nil {
		return fmt.Errorf("c01 recorder: unpacking own response: %w", err)
	}
	w.resps = append(w.resps, snap)

	return nil
}

// c01Metrics counts recovered panics.
type c01Metrics struct {
	EmptyMetricsListener
	panics int
}

func (m *c01Metrics) OnPanic(_ context.Context, _ any) { m.panics++ }

func c01ReqCtx(s *ServerBase) (ctx context.Context, cancel context.CancelFunc) {
	ctx, cancel = s.requestContext()
	ctx = ContextWithRequestInfo(ctx, &RequestInfo{StartTime: time.Now()})

	return ctx, cancel
}

// c01SeamObs is what the byte seam shows for one message.
type c01SeamObs struct {
	Panicked string
	Written  bool
	Resps    []*dns.Msg
}

var c01SeamServer *ServerDNS

func c01Seam() *ServerDNS {
	if c01SeamServer == nil {
		c01SeamServer = NewServerDNS(ConfigDNS{
			ConfigBase:     ConfigBase{Name: "c01-seam", Addr: "192.0.2.53:53", Handler: c01Handler{}, Metrics: &c01Metrics{}},
			MaxUDPRespSize: dns.MaxMsgSize,
		})
	}

	return c01SeamServer
}

// c01RunSeam calls the real ServerBase.serveDNS with wire.
func c01RunSeam(wire []byte) (obs c01SeamObs) {
	s := c01Seam()
	ctx, cancel := c01ReqCtx(s.ServerBase)
	defer cancel()
	rw := &c01RecRW{}
	buf := append([]byte(nil), wire...)
	obs.Panicked = vrt.Catch(func() { obs.Written = s.serveDNS(ctx, buf, rw) })
	obs.Resps = rw.resps

	return obs
}

// c01CheckSeam runs one wire message through the seam and the oracle.
func c01CheckSeam(r *vrt.Run, wire []byte) (fs []vrt.Finding) {
	sp := c01Classify(wire)
	obs := c01RunSeam(wire)
	r.Trans(1)
	if obs.Panicked != "" {
		if sp.H.Kind == c01KindPanic {
			// The recover is in the per-message functions around the seam;
			// they are driven in tier B.
			r.Class("seam:" + sp.Class + " -> handler panic passes through serveDNS")

			return nil
		}

		return vrt.F("seam/panic-escapes", "serveDNS panicked on class %s: %s (wire %x)", sp.Class, obs.Panicked, wire)
	}
	got := c01Treatment(sp, obs.Resps)
	r.Class("seam:" + sp.Class + " -> " + got)
	st := got
	if len(obs.Resps) > 0 {
		st += " " + vdns.Canon(obs.Resps[0], true)
	}
	r.State("seam|" + sp.Class + "|" + st)
	fs = append(fs, c01TreatmentFindings("seam", sp, got, obs.Resps)...)
	for _, resp := range obs.Resps {
		fs = append(fs, c01EchoFindings("seam", sp.Ref, wire, resp, false)...)
	}
	if obs.Written != (len(obs.Resps) > 0) {
		fs = append(fs, vrt.F("seam/written-flag-inconsistent", "serveDNS returned written=%v after %d successful writes (class %s)",
			obs.Written, len(obs.Resps), sp.Class)...)
	}

	return fs
}

// ---- Tier A alphabets -------------------------------------------------------------

// c01FlagsCase is one message of alphabet (i): a flag word and section counts
// with a body that matches the counts.
type c01FlagsCase struct {
	Flags uint16 `json:"flags"`
	Qd    int    `json:"qd"`
	An    int    `json:"an"`
	Ns    int    `json:"ns"`
	Ar    int    `json:"ar"`
}

func c01MustPack(m *dns.Msg) []byte {
	b, err := m.Pack()
	if err != nil {
		vrt.Fatalf("c01: packing a harness message: %v", err)
	}

	return b
}

var c01BodyCache = map[[4]int][]byte{}

// c01FlagsWire builds the message of a c01FlagsCase.
func c01FlagsWire(c c01FlagsCase) (wire []byte) {
	k := [4]int{c.Qd, c.An, c.Ns, c.Ar}
	base, ok := c01BodyCache[k]
	if !ok {
		m := &dns.Msg{}
		qs := []dns.Question{
			{Name: "Ok.ExAmple.", Qtype: dns.TypeA, Qclass: dns.ClassINET},
			{Name: "nx.Other.example.", Qtype: dns.TypeAAAA, Qclass: dns.ClassINET},
		}
		m.Question = qs[:c.Qd]
		an := []dns.RR{c01SOA("example."), &dns.A{Hdr: c01Hdr("ok.example.", dns.TypeA, 60), A: net.IPv4(192, 0, 2, 1).To4()}}
		m.Answer = an[:c.An]
		ns := []dns.RR{c01SOA("example."), &dns.NS{Hdr: c01Hdr("example.", dns.TypeNS, 60), Ns: "ns.example."}}
		m.Ns = ns[:c.Ns]
		opt := &dns.OPT{Hdr: dns.RR_Header{Name: ".", Rrtype: dns.TypeOPT}}
		opt.SetUDPSize(1232)
		switch c.Ar {
		case 1:
			m.Extra = []dns.RR{opt}
		case 2:
			m.Extra = []dns.RR{&dns.A{Hdr: c01Hdr("ns.example.", dns.TypeA, 60), A: net.IPv4(192, 0, 2, 2).To4()}, opt}
		}
		base = c01MustPack(m)
		c01BodyCache[k] = base
	}
	wire = append([]byte(nil), base...)
	binary.BigEndian.PutUint16(wire[0:], c.Flags^0xA5C3)
	binary.BigEndian.PutUint16(wire[2:], c.Flags)

	return wire
}

// c01QuestionCase is one message of alphabet (ii).
type c01QuestionCase struct {
	Name   int    `json:"name"`
	Qtype  uint16 `json:"qtype"`
	Qclass uint16 `json:"qclass"`
}

// c01WireName is a name given in wire form (so that compression pointers and
// exact case are under the harness's control).
type c01WireName struct {
	What string
	Wire []byte
}

func c01Labels(labels ...string) (w []byte) {
	for _, l := range labels {
		w = append(w, byte(len(l)))
		w = append(w, l...)
	}

	return append(w, 0)
}

func c01MixedLabel(n int, seed string) string {
	b := make([]byte, n)
	for i := range b {
		ch := byte('a' + (i+len(seed))%26)
		if i%3 == 1 {
			ch -= 'a' - 'A'
		}
		b[i] = ch
	}
	copy(b, seed)

	return string(b)
}

var c01WireNames = []c01WireName{
	{What: "root", Wire: c01Labels()},
	{What: "a.", Wire: c01Labels("a")},
	{What: "mixed-case", Wire: c01Labels("Ok", "ExAmple")},
	{What: "63-octet-label", Wire: c01Labels(c01MixedLabel(63, "Ok"), "example")},
	{What: "253-octet-name", Wire: c01Labels(c01MixedLabel(63, "Ok"), c01MixedLabel(63, "b"), c01MixedLabel(63, "C"), c01MixedLabel(61, "d"))},
	// "ok" followed by a pointer to offset 4 of the message, the high octet
	// of QDCOUNT, which is zero: the root label.
	{What: "compression-pointer", Wire: []byte{2, 'o', 'K', 0xC0, 4}},
	{What: "nx", Wire: c01Labels("Nx", "Example")},
	{What: "nodata", Wire: c01Labels("nodata", "example")},
	{What: "big", Wire: c01Labels("BIG", "example")},
	{What: "full", Wire: c01Labels("full", "example")},
	{What: "err", Wire: c01Labels("Err", "example")},
	{What: "silent", Wire: c01Labels("silent", "example")},
	// A pointer to itself: not decodable.
	{What: "pointer-loop", Wire: []byte{2, 'o', 'k', 0xC0, 15}},
	// A 64-octet label: not decodable.
	{What: "64-octet-label", Wire: append([]byte{64}, append([]byte(c01MixedLabel(64, "ok")), 0)...)},
}

var (
	c01Qtypes   = []uint16{dns.TypeA, dns.TypeAAAA, dns.TypeTXT, dns.TypeANY, dns.TypeHTTPS, dns.TypeOPT, dns.TypeAXFR, dns.TypeIXFR, 0, 65535}
	c01Qclasses = []uint16{dns.ClassINET, dns.ClassCHAOS, dns.ClassANY, 0}
)

func c01QuestionWire(id uint16, flags uint16, name []byte, qt, qc uint16) (wire []byte) {
	wire = make([]byte, 12, 12+len(name)+4)
	binary.BigEndian.PutUint16(wire[0:], id)
	binary.BigEndian.PutUint16(wire[2:], flags)
	binary.BigEndian.PutUint16(wire[4:], 1)
	wire = append(wire, name...)
	wire = binary.BigEndian.AppendUint16(wire, qt)
	wire = binary.BigEndian.AppendUint16(wire, qc)

	return wire
}

// c01ByteCase is one message of alphabet (iii): a seed message with one
// prefix truncation or one single-byte substitution.
type c01ByteCase struct {
	Seed int    `json:"seed"`
	Op   string `json:"op"` // "cut" or "sub"
	Off  int    `json:"off"`
	Val  byte   `json:"val"`
}

var c01SeedCache [][]byte

// c01Seeds are the seed messages of alphabet (iii).
func c01Seeds() [][]byte {
	if c01SeedCache != nil {
		return c01SeedCache
	}
	q := func(id uint16, name string, qt uint16) *dns.Msg {
		m := vdns.NewReq(id, name, qt, dns.ClassINET)

		return m
	}
	var out [][]byte
	// 0: a plain query.
	out = append(out, c01MustPack(q(0x1001, "Ok.ExAmple.", dns.TypeA)))
	// 1: with EDNS, DO, a cookie and padding.
	m := q(0x1002, "ok.example.", dns.TypeAAAA)
	m.SetEdns0(1232, true)
	m.IsEdns0().Option = append(m.IsEdns0().Option,
		&dns.EDNS0_COOKIE{Code: dns.EDNS0COOKIE, Cookie: "0123456789abcdef"},
		&dns.EDNS0_PADDING{Padding: make([]byte, 7)})
	out = append(out, c01MustPack(m))
	// 2: NOTIFY with a SOA in the answer section.
	m = q(0x1003, "example.", dns.TypeSOA)
	m.Opcode = dns.OpcodeNotify
	m.RecursionDesired = false
	m.Answer = []dns.RR{c01SOA("example.")}
	out = append(out, c01MustPack(m))
	// 3: IXFR with a SOA in the authority section.
	m = q(0x1004, "example.", dns.TypeIXFR)
	m.Ns = []dns.RR{c01SOA("example.")}
	out = append(out, c01MustPack(m))
	// 4: two questions.
	m = q(0x1005, "ok.example.", dns.TypeA)
	m.Question = append(m.Question, dns.Question{Name: "nx.example.", Qtype: dns.TypeAAAA, Qclass: dns.ClassINET})
	out = append(out, c01MustPack(m))
	// 5: a name ending in a compression pointer.
	out = append(out, c01QuestionWire(0x1006, 0x0100, []byte{2, 'o', 'K', 0xC0, 4}, dns.TypeA, dns.ClassINET))
	// 6..10: the other behaviours of H.
	out = append(out, c01MustPack(q(0x1007, "Nx.example.", dns.TypeAAAA)))
	m = q(0x1008, "big.example.", dns.TypeTXT)
	m.SetEdns0(4096, false)
	out = append(out, c01MustPack(m))
	out = append(out, c01MustPack(q(0x1009, "err.example.", dns.TypeA)))
	out = append(out, c01MustPack(q(0x100a, "silent.example.", dns.TypeA)))
	out = append(out, c01MustPack(q(0x100b, "full.example.", dns.TypeA)))
	// 11: a response.
	m = q(0x100c, "ok.example.", dns.TypeA)
	m.Response = true
	m.Answer = []dns.RR{&dns.A{Hdr: c01Hdr("ok.example.", dns.TypeA, 60), A: net.IPv4(192, 0, 2, 1).To4()}}
	out = append(out, c01MustPack(m))
	// 12: an UPDATE.
	m = q(0x100d, "example.", dns.TypeSOA)
	m.Opcode = dns.OpcodeUpdate
	m.RecursionDesired = false
	m.Ns = []dns.RR{&dns.A{Hdr: c01Hdr("new.example.", dns.TypeA, 60), A: net.IPv4(192, 0, 2, 9).To4()}}
	out = append(out, c01MustPack(m))
	// 13: a name of maximal length.
	out = append(out, c01QuestionWire(0x100e, 0x0100, c01WireNames[4].Wire, dns.TypeA, dns.ClassINET))
	c01SeedCache = out

	return out
}

func c01ByteWire(c c01ByteCase) (wire []byte) {
	seed := c01Seeds()[c.Seed]
	switch c.Op {
	case "cut":
		return append([]byte(nil), seed[:c.Off]...)
	default:
		wire = append([]byte(nil), seed...)
		wire[c.Off] = c.Val

		return wire
	}
}

// c01ByteCases enumerates alphabet (iii).  all selects every octet value
// instead of the five adversarial ones.
func c01ByteCases(all bool, emit func(c01ByteCase)) {
	for si, seed := range c01Seeds() {
		for off := 0; off < len(seed); off++ {
			emit(c01ByteCase{Seed: si, Op: "cut", Off: off})
		}
		for off := 0; off < len(seed); off++ {
			if all {
				for v := 0; v < 256; v++ {
					if byte(v) != seed[off] {
						emit(c01ByteCase{Seed: si, Op: "sub", Off: off, Val: byte(v)})
					}
				}

				continue
			}
			seen := map[byte]bool{seed[off]: true}
			for _, v := range []byte{0x00, 0xFF, 0xC0, 0x3F, seed[off] ^ 0x80} {
				if !seen[v] {
					seen[v] = true
					emit(c01ByteCase{Seed: si, Op: "sub", Off: off, Val: v})
				}
			}
		}
	}
}

// ---- Exports for the loopback harness (package dnsserver_test) ------------------------

// VerifC01Handler is H.
var VerifC01Handler Handler = c01Handler{}

// VerifC01Tuple is the comparable part of a response.
type VerifC01Tuple = c01Tuple

// VerifC01Expect returns the kind of H's behaviour for a question and the
// tuple a client must see (SERVFAIL without records when H returns an error).
func VerifC01Expect(q dns.Question) (kind string, want VerifC01Tuple) {
	res := c01H(q.Name, q.Qtype, q.Qclass)

	return res.Kind, c01TupleOfResult(res)
}

// VerifC01TupleOf extracts the tuple of a response.
func VerifC01TupleOf(m *dns.Msg) VerifC01Tuple { return c01TupleOf(m) }

// VerifC01Same compares two tuples; with prefix == true got may be a prefix
// of want section by section (truncation).
func VerifC01Same(got, want VerifC01Tuple, prefix bool) bool {
	if !prefix {
		return got.equal(want)
	}

	return got.Rcode == want.Rcode && c01IsPrefix(got.An, want.An) && c01IsPrefix(got.Ns, want.Ns) && c01IsPrefix(got.Ex, want.Ex)
}

// VerifC01FullLen is the size of the untruncated response to req.
func VerifC01FullLen(req *dns.Msg) int {
	q := req.Question[0]

	return c01FullLen(req, c01H(q.Name, q.Qtype, q.Qclass))
}

// VerifC01Echo returns the echo findings (QR, ID, question) as strings.
func VerifC01Echo(where string, req *dns.Msg, resp *dns.Msg, ignoreID bool) []vrt.Finding {
	return c01EchoFindings(where, req, nil, resp, ignoreID)
}

// VerifC01LongName is the name of maximal length.
func VerifC01LongName() string { return c01QueryNames()[4] }

// VerifC01JSONSection converts the Answer / Authority / Extra members of a
// JSON answer into canonical record strings.
func VerifC01JSONSection(raw []byte) (status int, qname string, qtype uint16, an, ex []string, err error) {
	jm := &c01JSONMsg{}
	if err = json.Unmarshal(raw, jm); err != nil {
		return 0, "", 0, nil, nil, err
	}
	if jm.Status == nil || len(jm.Question) != 1 {
		return 0, "", 0, nil, nil, fmt.Errorf("json answer without Status or with %d questions", len(jm.Question))
	}
	if an, err = c01JSONSection(jm.Answer); err != nil {
		return 0, "", 0, nil, nil, err
	}
	if ex, err = c01JSONSection(jm.Extra); err != nil {
		return 0, "", 0, nil, nil, err
	}

	return *jm.Status, jm.Question[0].Name, jm.Question[0].Type, an, ex, nil
}

// ---- Test --------------------------------------------------------------------------

func TestVerifC01(t *testing.T) {
	log.SetOutput(io.Discard)
	r := vrt.Start("C01")

	// Tier A (i): header flag words x section counts.
	flagWords := vrt.Pick(r, 2048, 65536)
	r.Bound("seam_flag_words", flagWords)
	r.Bound("seam_section_counts", "{0,1,2}^4")
	vrt.Part(r, "seam-flags",
		func(emit func(c01FlagsCase)) {
			for f := 0; f < 65536; f++ {
				if !r.Thorough() && f&0x004F != 0 {
					// Quick tier: Z and RCODE bits zero.
					continue
				}
				vrt.Odometer([]int{3, 3, 3, 3}, func(idx []int) {
					emit(c01FlagsCase{Flags: uint16(f), Qd: idx[0], An: idx[1], Ns: idx[2], Ar: idx[3]})
				})
			}
		},
		func(c c01FlagsCase) []vrt.Finding { return c01CheckSeam(r, c01FlagsWire(c)) })

	// Tier A (ii): the question dimension.
	r.Bound("seam_question_names", len(c01WireNames))
	r.Bound("seam_question_qtypes", len(c01Qtypes))
	r.Bound("seam_question_qclasses", len(c01Qclasses))
	allValues := vrt.Pick(r, 512, 65536)
	r.Bound("seam_question_all_qtypes_qclasses_below", allValues)
	vrt.Part(r, "seam-question",
		func(emit func(c01QuestionCase)) {
			for n := range c01WireNames {
				for _, qt := range c01Qtypes {
					for _, qc := range c01Qclasses {
						emit(c01QuestionCase{Name: n, Qtype: qt, Qclass: qc})
					}
				}
			}
			// Every qtype and every qclass, for the names 2 (mixed case), 4
			// (maximal length), 5 (compression pointer), 6 (NXDOMAIN).
			for _, n := range []int{2, 4, 5, 6} {
				for v := 0; v < allValues; v++ {
					for _, qc := range c01Qclasses {
						emit(c01QuestionCase{Name: n, Qtype: uint16(v), Qclass: qc})
					}
					for _, qt := range c01Qtypes {
						emit(c01QuestionCase{Name: n, Qtype: qt, Qclass: uint16(v)})
					}
				}
			}
		},
		func(c c01QuestionCase) []vrt.Finding {
			id := uint16(0x2000 + c.Name*64 + int(c.Qtype%8)*4 + int(c.Qclass%4))

			return c01CheckSeam(r, c01QuestionWire(id, 0x0100, c01WireNames[c.Name].Wire, c.Qtype, c.Qclass))
		})

	// Tier A (iii): byte level.
	r.Bound("seam_byte_seeds", len(c01Seeds()))
	r.Bound("seam_byte_ops", vrt.Pick(r, "every prefix truncation; every offset x {00,FF,C0,3F,b^80}", "every prefix truncation; every offset x every other octet value"))
	vrt.Part(r, "seam-bytes", func(emit func(c01ByteCase)) { c01ByteCases(r.Thorough(), emit) },
		func(c c01ByteCase) []vrt.Finding { return c01CheckSeam(r, c01ByteWire(c)) })

	c01TierB(r)
	c01TimeoutParts(r)

	r.Finish()
	os.Exit(0)
}
