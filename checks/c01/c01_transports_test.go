//go:build verif

package dnsserver

import "github.com/AdguardTeam/AdGuardDNS/internal/dnsserver/zzverif/vrt"

func c01TierB(r *vrt.Run) {}
