//go:build verif

package dnsserver

// C01 tier B: the same message over every transport.  Each driver hands the
// client's bytes to the function the transport's accept loop calls for one
// message (the accept-level functions acceptUDPMsg / acceptTCPMsg where they
// exist, so that the read-side framing is real code too) and captures what is
// written to an in-memory connection.

import (
	"bufio"
	"bytes"
	"context"
	"encoding/base64"
	"encoding/binary"
	"encoding/json"
	"fmt"
	"io"
	"net"
	"net/http"
	"net/http/httptest"
	"net/url"
	"strconv"
	"strings"
	"sync"
	"testing/iotest"
	"time"

	"github.com/AdguardTeam/AdGuardDNS/internal/dnsserver/netext"
	"github.com/AdguardTeam/AdGuardDNS/internal/dnsserver/zzverif/vdns"
	"github.com/AdguardTeam/AdGuardDNS/internal/dnsserver/zzverif/vrt"
	"github.com/AdguardTeam/golibs/syncutil"
	"github.com/miekg/dns"
	"github.com/quic-go/quic-go"
)

// ---- In-memory connections -------------------------------------------------------

// c01PacketConn is a fake net.PacketConn: one datagram to read, all written
// datagrams captured.
type c01PacketConn struct {
	in   []byte
	sent [][]byte
}

func (c *c01PacketConn) ReadFrom(p []byte) (n int, addr net.Addr, err error) {
	if c.in == nil {
		return 0, nil, io.EOF
	}
	n = copy(p, c.in)
	c.in = nil

	return n, c01UDPRemote, nil
}

func (c *c01PacketConn) WriteTo(p []byte, _ net.Addr) (n int, err error) {
	c.sent = append(c.sent, bytes.Clone(p))

	return len(p), nil
}
func (c *c01PacketConn) Close() error                       { return nil }
func (c *c01PacketConn) LocalAddr() net.Addr                { return c01UDPLocal }
func (c *c01PacketConn) SetDeadline(_ time.Time) error      { return nil }
func (c *c01PacketConn) SetReadDeadline(_ time.Time) error  { return nil }
func (c *c01PacketConn) SetWriteDeadline(_ time.Time) error { return nil }

// c01Conn is a fake net.Conn: a byte stream to read, written bytes captured.
type c01Conn struct {
	in *bytes.Reader
	// pieces, if in is nil, are the segments the client's octets arrive in: a
	// Read never returns octets of more than one piece (a TCP segment, a TLS
	// record).
	pieces [][]byte
	out    bytes.Buffer
	closed bool
}

func (c *c01Conn) Read(p []byte) (n int, err error) {
	if c.closed {
		return 0, net.ErrClosed
	}
	if c.in != nil {
		return c.in.Read(p)
	}
	for len(c.pieces) > 0 && len(c.pieces[0]) == 0 {
		c.pieces = c.pieces[1:]
	}
	if len(c.pieces) == 0 {
		return 0, io.EOF
	}
	if len(p) == 0 {
		return 0, nil
	}
	n = copy(p, c.pieces[0])
	c.pieces[0] = c.pieces[0][n:]

	return n, nil
}

func (c *c01Conn) Write(p []byte) (n int, err error) {
	if c.closed {
		return 0, net.ErrClosed
	}

	return c.out.Write(p)
}
func (c *c01Conn) Close() error                       { c.closed = true; return nil }
func (c *c01Conn) LocalAddr() net.Addr                { return c01TCPLocal }
func (c *c01Conn) RemoteAddr() net.Addr               { return c01TCPRemote }
func (c *c01Conn) SetDeadline(_ time.Time) error      { return nil }
func (c *c01Conn) SetReadDeadline(_ time.Time) error  { return nil }
func (c *c01Conn) SetWriteDeadline(_ time.Time) error { return nil }

// c01Stream is a fake quic.Stream that models the receive-side contract of
// quic-go: the client's octets arrive in one or more pieces and the STREAM
// FIN arrives either together with the last piece (Read returns n, io.EOF) or
// on its own (Read returns n, nil and the next Read 0, io.EOF).  quic-go
// retires a bidirectional stream, and gives the peer MAX_STREAMS credit for
// it, only after the receive side was read to io.EOF or cancelled with
// CancelRead; Close closes the send side only.
type c01Stream struct {
	quic.Stream
	pieces      [][]byte
	finSeparate bool
	out         bytes.Buffer

	sawEOF      bool
	cancelRead  bool
	sendClosed  bool
	readsAfterE int
}

func (s *c01Stream) Read(p []byte) (n int, err error) {
	if s.cancelRead {
		return 0, &quic.StreamError{Remote: false}
	}
	for len(s.pieces) > 0 && len(s.pieces[0]) == 0 {
		s.pieces = s.pieces[1:]
	}
	if len(s.pieces) == 0 {
		if s.sawEOF {
			s.readsAfterE++
		}
		s.sawEOF = true

		return 0, io.EOF
	}
	if len(p) == 0 {
		return 0, nil
	}
	n = copy(p, s.pieces[0])
	s.pieces[0] = s.pieces[0][n:]
	if len(s.pieces[0]) == 0 {
		s.pieces = s.pieces[1:]
	}
	if len(s.pieces) == 0 && !s.finSeparate {
		s.sawEOF = true

		return n, io.EOF
	}

	return n, nil
}

func (s *c01Stream) Write(p []byte) (n int, err error)  { return s.out.Write(p) }
func (s *c01Stream) Close() error                       { s.sendClosed = true; return nil }
func (s *c01Stream) CancelRead(_ quic.StreamErrorCode)  { s.cancelRead = true }
func (s *c01Stream) CancelWrite(_ quic.StreamErrorCode) { s.sendClosed = true }
func (s *c01Stream) SetReadDeadline(_ time.Time) error  { return nil }
func (s *c01Stream) SetWriteDeadline(_ time.Time) error { return nil }
func (s *c01Stream) SetDeadline(_ time.Time) error      { return nil }

// c01StreamDelivery is one way the client's octets and FIN reach the server.
type c01StreamDelivery struct {
	name        string
	split       func(b []byte) [][]byte
	finSeparate bool
}

func c01SplitAt(b []byte, cuts ...int) (out [][]byte) {
	prev := 0
	for _, c := range cuts {
		if c < 0 {
			c = len(b) + c
		}
		if c <= prev || c >= len(b) {
			continue
		}
		out = append(out, b[prev:c])
		prev = c
	}

	return append(out, b[prev:])
}

// c01StreamDeliveries: 1..3 pieces (whole; length prefix | message; first
// octet | middle | last octet) and every octet on its own, each with the FIN
// together with the last piece or in a separate step.  The first one is the
// primary delivery whose response is judged by the oracle.
var c01StreamDeliveries = func() (ds []c01StreamDelivery) {
	splits := []struct {
		n string
		f func(b []byte) [][]byte
	}{
		{"1-piece", func(b []byte) [][]byte { return [][]byte{b} }},
		{"prefix|message", func(b []byte) [][]byte { return c01SplitAt(b, 2) }},
		{"first|middle|last", func(b []byte) [][]byte { return c01SplitAt(b, 1, -1) }},
		{"octet-by-octet", func(b []byte) (out [][]byte) {
			if len(b) > 600 {
				// Keep large messages affordable: 97-octet pieces.
				for i := 0; i < len(b); i += 97 {
					out = append(out, b[i:min(i+97, len(b))])
				}

				return out
			}
			for i := range b {
				out = append(out, b[i:i+1])
			}

			return out
		}},
	}
	for _, sp := range splits {
		for _, sep := range []bool{false, true} {
			n := sp.n + "+fin-with-data"
			if sep {
				n = sp.n + "+fin-separate"
			}
			ds = append(ds, c01StreamDelivery{name: n, split: sp.f, finSeparate: sep})
		}
	}

	return ds
}()

// c01QUICConn is a fake quic.Connection.
type c01QUICConn struct {
	quic.Connection
	closedWith *quic.ApplicationErrorCode
}

func (c *c01QUICConn) LocalAddr() net.Addr  { return c01UDPLocal }
func (c *c01QUICConn) RemoteAddr() net.Addr { return c01UDPRemote }
func (c *c01QUICConn) CloseWithError(code quic.ApplicationErrorCode, _ string) error {
	if c.closedWith == nil {
		c.closedWith = &code
	}

	return nil
}

// c01CryptRW is a fake dnscrypt.ResponseWriter: it captures the messages the
// server hands to the DNSCrypt library for encryption.
type c01CryptRW struct {
	local, remote net.Addr
	// packed are the messages as the library packs them for encryption, at
	// the time of the call (dnscrypt/v2 Server.encrypt).
	packed  [][]byte
	packErr error
}

func (w *c01CryptRW) LocalAddr() net.Addr  { return w.local }
func (w *c01CryptRW) RemoteAddr() net.Addr { return w.remote }
func (w *c01CryptRW) WriteMsg(m *dns.Msg) error {
	b, err := m.Pack()
	if err != nil {
		w.packErr = err

		return err
	}
	w.packed = append(w.packed, b)

	return nil
}

// ---- Poisoning disposer -----------------------------------------------------------------

// c01PoisonDisposer is the Disposer of every tier B server object.  The
// contract of [Disposer] is that a disposed message is not used any more (in
// production its parts go back to the cloner's pools and are overwritten by
// whichever request takes them next).  To make a use after dispose visible
// without concurrency, Dispose overwrites the message in place: on a tree that
// honours the contract nothing observable changes; on a tree that disposes a
// response before it has been normalized, packed and written, the client gets
// the poison (another ID, question and rcode, no records).  A second Dispose
// of a message that is still poisoned is counted as a double dispose (in
// production: a double Put, two later requests get the same message).
type c01PoisonDisposer struct {
	mu sync.Mutex
	// poisoned holds the disposed messages of the current case; holding them
	// keeps their addresses from being reused.
	poisoned map[*dns.Msg]struct{}
	doubles  int
	disposed int
}

const c01PoisonName = "poisoned.by.disposer.invalid."

func c01PoisonRR(rr dns.RR) {
	if rr == nil {
		return
	}
	h := rr.Header()
	h.Name, h.Ttl = c01PoisonName, 0xdead
	switch v := rr.(type) {
	case *dns.A:
		for i := range v.A {
			v.A[i] = 0xee
		}
	case *dns.AAAA:
		for i := range v.AAAA {
			v.AAAA[i] = 0xee
		}
	case *dns.TXT:
		for i := range v.Txt {
			v.Txt[i] = "poisoned"
		}
		v.Txt = v.Txt[:0]
	case *dns.SOA:
		v.Ns, v.Mbox, v.Serial, v.Minttl = c01PoisonName, c01PoisonName, 0xdead, 0xdead
	case *dns.NS:
		v.Ns = c01PoisonName
	case *dns.CNAME:
		v.Target = c01PoisonName
	case *dns.HTTPS:
		v.Target, v.Priority, v.Value = c01PoisonName, 0xdead, v.Value[:0]
	case *dns.SVCB:
		v.Target, v.Priority, v.Value = c01PoisonName, 0xdead, v.Value[:0]
	case *dns.OPT:
		for i := range v.Option {
			v.Option[i] = nil
		}
		v.Option = v.Option[:0]
		h.Name, h.Class, h.Ttl = ".", 0, 0
	}
}

// Dispose implements the [Disposer] interface for *c01PoisonDisposer.
func (d *c01PoisonDisposer) Dispose(m *dns.Msg) {
	if m == nil {
		return
	}
	d.mu.Lock()
	defer d.mu.Unlock()
	d.disposed++
	if _, ok := d.poisoned[m]; ok {
		d.doubles++

		return
	}
	d.poisoned[m] = struct{}{}
	m.Id ^= 0x5a5a
	m.Rcode = dns.RcodeRefused
	m.Response, m.Truncated = false, false
	for i := range m.Question {
		m.Question[i] = dns.Question{Name: c01PoisonName, Qtype: dns.TypeNULL, Qclass: dns.ClassNONE}
	}
	for _, sec := range [][]dns.RR{m.Answer, m.Ns, m.Extra} {
		for i, rr := range sec {
			c01PoisonRR(rr)
			sec[i] = nil
		}
	}
	m.Question, m.Answer, m.Ns, m.Extra = m.Question[:0], m.Answer[:0], m.Ns[:0], m.Extra[:0]
}

// take returns the number of double disposes since the last call and forgets
// the poisoned messages of the exchanges so far.
func (d *c01PoisonDisposer) take() (doubles int) {
	d.mu.Lock()
	defer d.mu.Unlock()
	doubles, d.doubles = d.doubles, 0
	clear(d.poisoned)

	return doubles
}

var c01Disposer = &c01PoisonDisposer{poisoned: map[*dns.Msg]struct{}{}}

// c01DisposeFindings reports the double disposes of the exchange that was
// just made on transport t.
func c01DisposeFindings(t string) []vrt.Finding {
	if n := c01Disposer.take(); n > 0 {
		return vrt.F(t+"/double-dispose", "%d response(s) handed to the Disposer twice", n)
	}

	return nil
}

// ---- Rig ---------------------------------------------------------------------------

// c01Rig holds one real server object of every kind, all with handler H.
type c01Rig struct {
	metrics *c01Metrics
	plain   *ServerDNS
	dot     *ServerDNS
	doq     *ServerQUIC
	doh     *ServerHTTPS
	crypt   *ServerDNSCrypt
}

var c01TheRig *c01Rig

func c01GetRig() *c01Rig {
	if c01TheRig != nil {
		return c01TheRig
	}
	rig := &c01Rig{metrics: &c01Metrics{}}
	base := func(name string) ConfigBase {
		return ConfigBase{Name: name, Addr: "192.0.2.53:53", Handler: c01Handler{}, Metrics: rig.metrics, Disposer: c01Disposer}
	}
	rig.plain = NewServerDNS(ConfigDNS{ConfigBase: base("c01-dns"), MaxUDPRespSize: dns.MaxMsgSize})
	rig.dot = NewServerTLS(ConfigTLS{ConfigDNS: ConfigDNS{ConfigBase: base("c01-dot")}}).ServerDNS
	rig.doq = NewServerQUIC(ConfigQUIC{ConfigBase: base("c01-doq")})
	rig.doh = NewServerHTTPS(ConfigHTTPS{ConfigBase: base("c01-doh")})
	rig.crypt = NewServerDNSCrypt(ConfigDNSCrypt{ConfigBase: base("c01-dnscrypt")})
	c01TheRig = rig

	return rig
}

// c01UDPLimit is the size limit that applies to a UDP response to a request
// advertising adv (0: no EDNS) on the rig's plain server (configured maximum
// 65535) and on DNSCrypt over UDP.
func c01UDPLimit(adv uint16) int {
	if adv < dns.MinMsgSize {
		return dns.MinMsgSize
	}

	return int(adv)
}

// ---- Observations --------------------------------------------------------------------

// c01TObs is what one transport showed for one client message.
type c01TObs struct {
	// Panicked is set when a panic escaped the per-message function.
	Panicked string
	// Msgs are the DNS messages sent back, decoded.
	Msgs []*dns.Msg
	// JSON is the decoded JSON body of a DoH JSON exchange with status 200.
	JSON *c01JSONMsg
	// Garbled is set when bytes were sent that do not parse as the
	// transport's framing of DNS messages.
	Garbled string
	// Closed is set when the server closed the connection.
	Closed bool
	// HTTPStatus is the HTTP status of a DoH exchange.
	HTTPStatus int
	// Skipped is set when the message never reaches repository code on this
	// transport (dropped by the DNSCrypt library's own check).
	Skipped bool
	// Findings are violations the driver itself observed (DoQ stream
	// handling); the check functions report them with their own.
	Findings []vrt.Finding
}

func (o c01TObs) note() string {
	switch {
	case o.Panicked != "":
		return "panic: " + o.Panicked
	case o.Garbled != "":
		return "garbled: " + o.Garbled
	case o.Skipped:
		return "dropped by the dnscrypt library"
	case o.HTTPStatus != 0:
		return fmt.Sprintf("http %d", o.HTTPStatus)
	case o.Closed:
		return "connection closed"
	default:
		return "nothing sent"
	}
}

// c01JSONMsg is the documented JSON format (Google's DNS-over-HTTPS JSON
// response), decoded independently of the repository's type.
type c01JSONMsg struct {
	Status    *int         `json:"Status"`
	Question  []c01JSONQ   `json:"Question"`
	Answer    []c01JSONRR  `json:"Answer"`
	Authority *[]c01JSONRR `json:"Authority"`
	Extra     []c01JSONRR  `json:"Extra"`
}

type c01JSONQ struct {
	Name string `json:"name"`
	Type uint16 `json:"type"`
}

type c01JSONRR struct {
	Name  string  `json:"name"`
	Type  uint16  `json:"type"`
	Class *uint16 `json:"class"`
	TTL   uint32  `json:"TTL"`
	Data  string  `json:"data"`
}

// c01DecodeDatagrams decodes each datagram as one message.
func c01DecodeDatagrams(sent [][]byte, obs *c01TObs) {
	for _, d := range sent {
		m := &dns.Msg{}
		if err := m.Unpack(d); err != nil {
			obs.Garbled = fmt.Sprintf("datagram %x does not decode: %v", d, err)

			return
		}
		obs.Msgs = append(obs.Msgs, m)
	}
}

// c01DecodeFrames decodes a stream of length-prefixed messages.
func c01DecodeFrames(b []byte, obs *c01TObs) {
	for len(b) > 0 {
		if len(b) < 2 {
			obs.Garbled = fmt.Sprintf("%d stray octet(s) %x at the end of the stream", len(b), b)

			return
		}
		l := int(binary.BigEndian.Uint16(b))
		if len(b) < 2+l {
			obs.Garbled = fmt.Sprintf("length prefix %d but only %d octets follow", l, len(b)-2)

			return
		}
		m := &dns.Msg{}
		if err := m.Unpack(b[2 : 2+l]); err != nil {
			obs.Garbled = fmt.Sprintf("frame of %d octets does not decode: %v", l, err)

			return
		}
		obs.Msgs = append(obs.Msgs, m)
		b = b[2+l:]
	}
}

func c01Frame(wire []byte) []byte {
	return append(binary.BigEndian.AppendUint16(nil, uint16(len(wire))), wire...)
}

// ---- Drivers ---------------------------------------------------------------------------

// c01UDP feeds one datagram to the real acceptUDPMsg of the plain server.
func c01UDP(rig *c01Rig, datagram []byte) (obs c01TObs) {
	s := rig.plain
	pc := &c01PacketConn{in: append([]byte{}, datagram...)}
	var err error
	obs.Panicked = vrt.Catch(func() { err = s.acceptUDPMsg(context.Background(), pc) })
	s.wg.Wait()
	if err != nil && obs.Panicked == "" {
		obs.Garbled = "acceptUDPMsg: " + err.Error()
	}
	c01DecodeDatagrams(pc.sent, &obs)

	return obs
}

// c01UDPDirect calls the per-message function serveUDPPacket itself.
func c01UDPDirect(rig *c01Rig, datagram []byte) (obs c01TObs) {
	s := rig.plain
	pc := &c01PacketConn{}
	ctx, cancel := c01ReqCtx(s.ServerBase)
	defer cancel()
	s.wg.Add(1)
	obs.Panicked = vrt.Catch(func() {
		s.serveUDPPacket(ctx, append([]byte{}, datagram...), pc, netext.NewSimplePacketSession(c01UDPLocal, c01UDPRemote))
	})
	c01DecodeDatagrams(pc.sent, &obs)

	return obs
}

// c01TCPSession is one in-memory TCP or TLS connection to a server.
type c01TCPSession struct {
	s       *ServerDNS
	conn    *c01Conn
	wg      *sync.WaitGroup
	writeMu *sync.Mutex
	seen    int
}

func c01NewTCPSession(s *ServerDNS, stream []byte) *c01TCPSession {
	return &c01TCPSession{s: s, conn: &c01Conn{in: bytes.NewReader(stream)}, wg: &sync.WaitGroup{}, writeMu: &sync.Mutex{}}
}

// next lets the real acceptTCPMsg read and serve the next message of the
// stream and returns what was written for it.
func (ts *c01TCPSession) next() (obs c01TObs, readErr error) {
	obs.Panicked = vrt.Catch(func() {
		readErr = ts.s.acceptTCPMsg(ts.conn, ts.wg, ts.writeMu, ts.s.conf.ReadTimeout, syncutil.EmptySemaphore{})
	})
	ts.wg.Wait()
	out := ts.conn.out.Bytes()
	c01DecodeFrames(out[ts.seen:], &obs)
	ts.seen = len(out)
	obs.Closed = ts.conn.closed

	return obs, readErr
}

// c01TCP sends one framed message on a fresh connection, in every
// segmentation.
func c01TCP(s *ServerDNS, stream []byte) (obs c01TObs) {
	return c01TCPStream(s, [][]byte{stream})[0]
}

// c01TCPSegmentation is one way the octets of a TCP / TLS stream are cut
// into the pieces single Reads return.
type c01TCPSegmentation struct {
	name string
	cut  func(stream []byte, firstLen int) [][]byte
}

// c01TCPSegmentations: one piece (the primary delivery the oracle judges);
// prefix | message; first prefix octet | rest; first | middle | last octet;
// octet by octet; single cuts at 3 and at len-1; and, for two pipelined
// messages, cuts at the boundary and inside the second length prefix.
var c01TCPSegmentations = []c01TCPSegmentation{
	{"1-piece", func(b []byte, _ int) [][]byte { return [][]byte{b} }},
	{"cut@2", func(b []byte, _ int) [][]byte { return c01SplitAt(b, 2) }},
	{"cut@1", func(b []byte, _ int) [][]byte { return c01SplitAt(b, 1) }},
	{"first|middle|last", func(b []byte, _ int) [][]byte { return c01SplitAt(b, 1, -1) }},
	{"octet-by-octet", func(b []byte, _ int) (out [][]byte) {
		if len(b) > 600 {
			// Keep large messages affordable: the first two octets on their
			// own, then 97-octet pieces.
			out = append(out, b[0:1], b[1:2])
			for i := 2; i < len(b); i += 97 {
				out = append(out, b[i:min(i+97, len(b))])
			}

			return out
		}
		for i := range b {
			out = append(out, b[i:i+1])
		}

		return out
	}},
	{"cut@3", func(b []byte, _ int) [][]byte { return c01SplitAt(b, 3) }},
	{"cut@len-1", func(b []byte, _ int) [][]byte { return c01SplitAt(b, -1) }},
	{"cut@boundary", func(b []byte, l int) [][]byte { return c01SplitAt(b, l) }},
	{"cut-in-2nd-prefix", func(b []byte, l int) [][]byte { return c01SplitAt(b, l+1) }},
	{"cut@1+in-2nd-prefix", func(b []byte, l int) [][]byte { return c01SplitAt(b, 1, l+1) }},
}

func c01TCPShape(o c01TObs) (sh string) {
	sh = fmt.Sprintf("responses=%d closed=%v panicked=%v garbled=%v", len(o.Msgs), o.Closed, o.Panicked != "", o.Garbled != "")
	for _, m := range o.Msgs {
		sh += fmt.Sprintf(" [id=%d %s q=%s an=%d ns=%d ex=%d]", m.Id, dns.RcodeToString[m.Rcode], vdns.Question(m), len(m.Answer), len(m.Ns), len(m.Extra))
	}

	return sh
}

// c01TCPStream sends the given frames (length-prefixed messages, or arbitrary
// octets) over one fresh connection, letting the real acceptTCPMsg read and
// serve them one after the other, once per segmentation.  It returns the
// observations of the one-piece delivery; a treatment that differs in any
// other segmentation is attached to the first observation as a finding.
func c01TCPStream(s *ServerDNS, frames [][]byte) (obs []c01TObs) {
	t := "tcp"
	if s.proto == ProtoDoT {
		t = "dot"
	}
	var stream []byte
	for _, f := range frames {
		stream = append(stream, f...)
	}
	var primary []string
	for si, seg := range c01TCPSegmentations {
		if si >= 7 && len(frames) < 2 {
			break
		}
		var pieces [][]byte
		for _, pc := range seg.cut(stream, len(frames[0])) {
			pieces = append(pieces, append([]byte{}, pc...))
		}
		ts := &c01TCPSession{s: s, conn: &c01Conn{pieces: pieces}, wg: &sync.WaitGroup{}, writeMu: &sync.Mutex{}}
		var cur []c01TObs
		var shapes []string
		for range frames {
			o, _ := ts.next()
			cur = append(cur, o)
			shapes = append(shapes, c01TCPShape(o))
			if o.Closed || o.Panicked != "" {
				break
			}
		}
		if si == 0 {
			obs, primary = cur, shapes

			continue
		}
		if fmt.Sprint(shapes) != fmt.Sprint(primary) {
			obs[0].Findings = append(obs[0].Findings, vrt.F(t+"/treatment-depends-on-stream-segmentation",
				"stream of %d octets (%d frame(s)): in one piece -> %v; delivered %s -> %v", len(stream), len(frames), primary, seg.name, shapes)...)
		}
	}
	for len(obs) < len(frames) {
		// Not reached: the connection was closed before.
		obs = append(obs, c01TObs{Closed: true})
	}

	return obs
}

// c01TCPDirect calls the per-message function serveTCPMessage itself.
func c01TCPDirect(s *ServerDNS, wire []byte) (obs c01TObs) {
	ctx, cancel := c01ReqCtx(s.ServerBase)
	defer cancel()
	conn := &c01Conn{in: bytes.NewReader(nil)}
	wg := &sync.WaitGroup{}
	wg.Add(1)
	obs.Panicked = vrt.Catch(func() { s.serveTCPMessage(ctx, wg, &sync.Mutex{}, append([]byte{}, wire...), conn) })
	c01DecodeFrames(conn.out.Bytes(), &obs)
	obs.Closed = conn.closed

	return obs
}

// c01DoQ gives one stream with the given bytes to the real per-stream
// function.
func c01DoQ(rig *c01Rig, streamBytes []byte) (obs c01TObs) {
	var shapes []string
	for i, d := range c01StreamDeliveries {
		o, consumed := c01DoQOnce(rig, streamBytes, d)
		shape := fmt.Sprintf("msgs=%d closed=%v panicked=%v", len(o.Msgs), o.Closed, o.Panicked != "")
		if len(o.Msgs) > 0 {
			shape += " " + dns.RcodeToString[o.Msgs[0].Rcode] + " q=" + vdns.Question(o.Msgs[0])
		}
		shapes = append(shapes, shape)
		if i == 0 {
			obs = o
		} else if shape != shapes[0] {
			obs.Findings = append(obs.Findings, vrt.F("doq/treatment-depends-on-stream-segmentation",
				"stream of %d octets: delivery %s -> %s; delivery %s -> %s", len(streamBytes), c01StreamDeliveries[0].name, shapes[0], d.name, shape)...)
		}
		if !consumed {
			obs.Findings = append(obs.Findings, vrt.F("doq/answered-without-consuming-fin",
				"stream of %d octets, delivery %s: the server finished with the stream (%s) while its receive side is neither at EOF nor cancelled and the connection is open: quic-go never retires such a stream",
				len(streamBytes), d.name, shape)...)
		}
	}

	return obs
}

// c01DoQOnce gives one stream to the real per-stream function.  consumed
// reports whether the server left the stream in a state in which quic-go can
// retire it: receive side read to io.EOF or cancelled, or the whole connection
// closed.
func c01DoQOnce(rig *c01Rig, streamBytes []byte, d c01StreamDelivery) (obs c01TObs, consumed bool) {
	s := rig.doq
	ctx, cancel := c01ReqCtx(s.ServerBase)
	defer cancel()
	st := &c01Stream{pieces: d.split(append([]byte{}, streamBytes...)), finSeparate: d.finSeparate}
	conn := &c01QUICConn{}
	wg := &sync.WaitGroup{}
	wg.Add(1)
	obs.Panicked = vrt.Catch(func() { s.serveQUICStreamAsync(ctx, st, conn, wg) })
	c01DecodeFrames(st.out.Bytes(), &obs)
	obs.Closed = conn.closedWith != nil
	consumed = st.sawEOF || st.cancelRead || conn.closedWith != nil || obs.Panicked != ""

	return obs, consumed
}

// c01HTTP serves one HTTP request with the real DoH handler.
func c01HTTP(rig *c01Rig, method, target string, body []byte, jsonBody bool) (obs c01TObs) {
	obs = c01HTTPOnce(rig, method, target, body, jsonBody, c01BodyFraming{name: "declared"})
	if method != http.MethodPost || body == nil || jsonBody {
		return obs
	}
	// The same POST with every other framing of its body.
	primary := c01HTTPShape(obs)
	for _, fr := range c01BodyFramings(len(body)) {
		o := c01HTTPOnce(rig, method, target, body, false, fr)
		want := primary
		switch {
		case fr.declaredDelta < 0:
			// The server is told a shorter body: that is the message cut short.
			want = c01HTTPShape(c01HTTPOnce(rig, method, target, body[:len(body)+fr.declaredDelta], false, c01BodyFraming{name: "declared"}))
		case fr.declaredDelta > 0:
			// The body ends before the declared length: an HTTP-level error
			// is as good as the answer to the message.
			if len(o.Msgs) == 0 && o.HTTPStatus != http.StatusOK && o.Panicked == "" {
				continue
			}
		}
		if got := c01HTTPShape(o); got != want {
			obs.Findings = append(obs.Findings, vrt.F("doh-post/treatment-depends-on-body-framing",
				"POST %s with a body of %d octets: content length declared -> %s; body sent as %s -> %s", target, len(body), want, fr.name, got)...)
		}
	}

	return obs
}

// c01BodyFraming is one way the body of a POST reaches the handler.
type c01BodyFraming struct {
	name string
	// unknown: http.Request.ContentLength is -1 and the body is an opaque
	// reader (HTTP/2 and HTTP/3 without content-length).
	unknown bool
	// oneByte makes the opaque reader return one octet per Read.
	oneByte bool
	// chunks > 0: the request is parsed by http.ReadRequest from HTTP/1.1
	// octets with "Transfer-Encoding: chunked" and chunks of that many octets.
	chunks int
	// declaredDelta != 0: parsed by http.ReadRequest with a Content-Length that
	// is off by that much.
	declaredDelta int
}

func c01BodyFramings(n int) (fs []c01BodyFraming) {
	fs = []c01BodyFraming{
		{name: "undeclared length (ContentLength -1)", unknown: true},
		{name: "undeclared length, one octet per Read", unknown: true, oneByte: true},
		{name: "chunked, one chunk", chunks: max(n, 1)},
		{name: "chunked, two chunks", chunks: max((n+1)/2, 1)},
	}
	if n <= 600 {
		fs = append(fs, c01BodyFraming{name: "chunked, one octet per chunk", chunks: 1})
	} else {
		fs = append(fs, c01BodyFraming{name: "chunked, 97-octet chunks", chunks: 97})
	}
	if n >= 3 {
		fs = append(fs, c01BodyFraming{name: "Content-Length 3 less than the body", declaredDelta: -3})
	}
	fs = append(fs, c01BodyFraming{name: "Content-Length 5 more than the body", declaredDelta: 5})

	return fs
}

func c01HTTPShape(o c01TObs) (sh string) {
	sh = fmt.Sprintf("http %d responses=%d panicked=%v garbled=%v", o.HTTPStatus, len(o.Msgs), o.Panicked != "", o.Garbled != "")
	for _, m := range o.Msgs {
		sh += fmt.Sprintf(" [id=%d %s q=%s an=%d ns=%d]", m.Id, dns.RcodeToString[m.Rcode], vdns.Question(m), len(m.Answer), len(m.Ns))
	}

	return sh
}

type c01OpaqueReader struct{ io.Reader }

// c01HTTPOnce serves one HTTP request with the real DoH handler.
func c01HTTPOnce(rig *c01Rig, method, target string, body []byte, jsonBody bool, fr c01BodyFraming) (obs c01TObs) {
	h := &httpHandler{srv: rig.doh, localAddr: c01TCPLocal}
	var hr *http.Request
	switch {
	case fr.chunks > 0 || fr.declaredDelta != 0:
		raw := &bytes.Buffer{}
		fmt.Fprintf(raw, "%s %s HTTP/1.1\r\nHost: dns.example\r\nContent-Type: %s\r\nAccept: %s\r\n", method, target, MimeTypeDoH, MimeTypeDoH)
		if fr.chunks > 0 {
			raw.WriteString("Transfer-Encoding: chunked\r\n\r\n")
			for i := 0; i < len(body); i += fr.chunks {
				c := body[i:min(i+fr.chunks, len(body))]
				fmt.Fprintf(raw, "%x\r\n", len(c))
				raw.Write(c)
				raw.WriteString("\r\n")
			}
			raw.WriteString("0\r\n\r\n")
		} else {
			fmt.Fprintf(raw, "Content-Length: %d\r\n\r\n", len(body)+fr.declaredDelta)
			raw.Write(body)
		}
		var err error
		hr, err = http.ReadRequest(bufio.NewReader(raw))
		if err != nil {
			vrt.Fatalf("c01: http.ReadRequest of a harness request: %v", err)
		}
	default:
		var rd io.Reader
		switch {
		case body == nil:
		case fr.unknown && fr.oneByte:
			rd = c01OpaqueReader{iotest.OneByteReader(bytes.NewReader(body))}
		case fr.unknown:
			rd = c01OpaqueReader{bytes.NewReader(body)}
		default:
			rd = bytes.NewReader(body)
		}
		hr = httptest.NewRequest(method, "https://dns.example"+target, rd)
		if fr.unknown && hr.ContentLength != -1 {
			vrt.Fatalf("c01: httptest.NewRequest declared the length of an opaque body (%d)", hr.ContentLength)
		}
		if body != nil {
			hr.Header.Set("Content-Type", MimeTypeDoH)
		}
		hr.Header.Set("Accept", MimeTypeDoH)
	}
	hr.RemoteAddr = "198.51.100.7:40000"
	rec := httptest.NewRecorder()
	obs.Panicked = vrt.Catch(func() { h.ServeHTTP(rec, hr) })
	obs.HTTPStatus = rec.Code
	if rec.Code != http.StatusOK || obs.Panicked != "" {
		return obs
	}
	data := rec.Body.Bytes()
	if len(data) == 0 {
		return obs
	}
	if jsonBody {
		jm := &c01JSONMsg{}
		if err := json.Unmarshal(data, jm); err != nil {
			obs.Garbled = fmt.Sprintf("json body %.200q does not decode: %v", data, err)

			return obs
		}
		obs.JSON = jm

		return obs
	}
	m := &dns.Msg{}
	if err := m.Unpack(data); err != nil {
		obs.Garbled = fmt.Sprintf("body %x does not decode: %v", data, err)

		return obs
	}
	obs.Msgs = []*dns.Msg{m}

	return obs
}

// c01Crypt does what the DNSCrypt library (dnscrypt/v2 Server.serveDNS) does
// with a decrypted message: decode it, drop it unless it is a single-question
// query, call the repository's dnsCryptHandler and answer SERVFAIL if that
// returns an error.
func c01Crypt(rig *c01Rig, udp bool, wire []byte) (obs c01TObs) {
	r := &dns.Msg{}
	if err := r.Unpack(wire); err != nil || len(r.Question) != 1 || r.Response {
		obs.Skipped = true

		return obs
	}
	rw := &c01CryptRW{local: c01TCPLocal, remote: c01TCPRemote}
	if udp {
		rw.local, rw.remote = c01UDPLocal, c01UDPRemote
	}
	h := &dnsCryptHandler{srv: rig.crypt}
	var err error
	obs.Panicked = vrt.Catch(func() { err = h.ServeDNS(rw, r) })
	if err != nil && obs.Panicked == "" {
		_ = rw.WriteMsg((&dns.Msg{}).SetRcode(r, dns.RcodeServerFailure))
	}
	if rw.packErr != nil {
		obs.Garbled = "message handed to the dnscrypt library does not pack: " + rw.packErr.Error()

		return obs
	}
	for _, b := range rw.packed {
		snap := &dns.Msg{}
		if perr := snap.Unpack(b); perr != nil {
			obs.Garbled = "message handed to the dnscrypt library does not decode: " + perr.Error()

			return obs
		}
		obs.Msgs = append(obs.Msgs, snap)
	}

	return obs
}

// c01Transports are the client variants, in a fixed order.
var c01Transports = []string{
	"udp", "tcp", "dot", "doq", "doh-post", "doh-get", "doh-json", "doh-json-wire", "dnscrypt-udp", "dnscrypt-tcp",
}

func c01IsJSON(t string) bool { return t == "doh-json" || t == "doh-json-wire" }

// c01JSONTarget builds the JSON API request of a question.
func c01JSONTarget(q dns.Question, cd, do, wireCT, mnemonic bool) string {
	v := url.Values{}
	v.Set("name", q.Name)
	// "a number in [1, 65535] or a canonical string (case-insensitive)".
	ts := strconv.Itoa(int(q.Qtype))
	if s, ok := dns.TypeToString[q.Qtype]; ok && mnemonic && dns.StringToType[strings.ToUpper(s)] == q.Qtype {
		ts = strings.ToLower(s)
	}
	v.Set("type", ts)
	cs := strconv.Itoa(int(q.Qclass))
	if s, ok := dns.ClassToString[q.Qclass]; ok && mnemonic && dns.StringToClass[strings.ToUpper(s)] == q.Qclass {
		cs = strings.ToLower(s)
	}
	if q.Qclass != dns.ClassINET || mnemonic {
		v.Set("qc", cs)
	}
	if cd {
		v.Set("cd", "1")
	}
	if do {
		v.Set("do", "true")
	}
	if wireCT {
		v.Set("ct", MimeTypeDoH)
	}

	return PathJSON + "?" + v.Encode()
}

// c01Send sends the well-formed message wire (decoded: req) over transport t.
// direct selects the bare per-message functions (no worker pool), so that an
// escaping panic is visible.
func c01Send(rig *c01Rig, t string, wire []byte, req *dns.Msg, direct bool) (obs c01TObs) {
	switch t {
	case "udp":
		if direct {
			return c01UDPDirect(rig, wire)
		}

		return c01UDP(rig, wire)
	case "tcp", "dot":
		s := rig.plain
		if t == "dot" {
			s = rig.dot
		}
		if direct {
			return c01TCPDirect(s, wire)
		}

		return c01TCP(s, c01Frame(wire))
	case "doq":
		return c01DoQ(rig, c01Frame(wire))
	case "doh-post":
		return c01HTTP(rig, http.MethodPost, PathDoH, wire, false)
	case "doh-get":
		return c01HTTP(rig, http.MethodGet, PathDoH+"?dns="+base64.RawURLEncoding.EncodeToString(wire), nil, false)
	case "doh-json", "doh-json-wire":
		opt := req.IsEdns0()
		target := c01JSONTarget(req.Question[0], req.CheckingDisabled, opt != nil && opt.Do(), t == "doh-json-wire", req.Id%2 == 1)

		return c01HTTP(rig, http.MethodGet, target, nil, t == "doh-json")
	case "dnscrypt-udp":
		return c01Crypt(rig, true, wire)
	case "dnscrypt-tcp":
		return c01Crypt(rig, false, wire)
	}
	vrt.Fatalf("c01: unknown transport %q", t)

	return obs
}

// ---- Well-formed queries: agreement -------------------------------------------------------

// c01Query is one well-formed query of tier B.
type c01Query struct {
	Name   string `json:"name"`
	Qtype  uint16 `json:"qtype"`
	Qclass uint16 `json:"qclass"`
	RD     bool   `json:"rd"`
	AD     bool   `json:"ad"`
	CD     bool   `json:"cd"`
	EDNS   string `json:"edns"`
}

var c01EDNSKinds = []string{"none", "512", "1232", "4096", "do", "nsid", "padding", "keepalive", "cookie", "all"}

func c01QueryMsg(q c01Query) (m *dns.Msg) {
	idSum := uint32(q.Qtype)*3 + uint32(q.Qclass)*5 + uint32(len(q.EDNS))
	for i := 0; i < len(q.Name); i++ {
		idSum = idSum*33 + uint32(q.Name[i])
	}
	m = &dns.Msg{
		MsgHdr:   dns.MsgHdr{Id: 0x3000 | uint16(idSum&0x0fff), RecursionDesired: q.RD, AuthenticatedData: q.AD, CheckingDisabled: q.CD},
		Question: []dns.Question{{Name: q.Name, Qtype: q.Qtype, Qclass: q.Qclass}},
	}
	opt := func(size uint16, do bool, opts ...dns.EDNS0) {
		m.SetEdns0(size, do)
		o := m.IsEdns0()
		o.Option = append(o.Option, opts...)
	}
	nsid := &dns.EDNS0_NSID{Code: dns.EDNS0NSID}
	padding := &dns.EDNS0_PADDING{Padding: make([]byte, 16)}
	keepalive := &dns.EDNS0_TCP_KEEPALIVE{Code: dns.EDNS0TCPKEEPALIVE}
	cookie := &dns.EDNS0_COOKIE{Code: dns.EDNS0COOKIE, Cookie: "0123456789abcdef"}
	switch q.EDNS {
	case "none":
	case "512":
		opt(512, false)
	case "1232":
		opt(1232, false)
	case "4096":
		opt(4096, false)
	case "do":
		opt(4096, true)
	case "nsid":
		opt(1232, false, nsid)
	case "padding":
		opt(1232, false, padding)
	case "keepalive":
		opt(1232, false, keepalive)
	case "cookie":
		opt(1232, false, cookie)
	case "all":
		opt(4096, true, nsid, padding, keepalive, cookie)
	default:
		vrt.Fatalf("c01: unknown EDNS kind %q", q.EDNS)
	}

	return m
}

// c01QueryNames are the names of tier B in presentation form.
func c01QueryNames() []string {
	long := strings.Join([]string{c01MixedLabel(63, "Ok"), c01MixedLabel(63, "b"), c01MixedLabel(63, "C"), c01MixedLabel(61, "d")}, ".") + "."

	return []string{
		".", "a.", "Ok.ExAmple.", c01MixedLabel(63, "Ok") + ".example.", long,
		"Nx.Example.", "nodata.example.", "BIG.example.", "full.example.", "Err.example.", "silent.example.",
	}
}

// c01FullLen is the size of the response as a transport would send it without
// truncation: H's records, the question, and an OPT record if the client sent
// one (with all the client's options: an upper bound of what the server echoes).
func c01FullLen(req *dns.Msg, res c01Result) int {
	m := (&dns.Msg{}).SetReply(req)
	m.Answer, m.Ns, m.Extra = res.An, res.Ns, append([]dns.RR{}, res.Ex...)
	if opt := req.IsEdns0(); opt != nil {
		o := &dns.OPT{Hdr: dns.RR_Header{Name: ".", Rrtype: dns.TypeOPT}}
		// An upper bound: every option of the request echoed.
		o.Option = append(o.Option, opt.Option...)
		m.Extra = append(m.Extra, o)
	}
	m.Compress = true

	return m.Len()
}

func c01IsPrefix(got, want []string) bool {
	return len(got) <= len(want) && c01SameStrings(got, want[:len(got)])
}

// c01JSONSection converts a JSON section back into canonical record strings.
func c01JSONSection(rrs []c01JSONRR) (out []string, err error) {
	for _, j := range rrs {
		if j.Type == dns.TypeOPT {
			continue
		}
		class := uint16(dns.ClassINET)
		if j.Class != nil {
			class = *j.Class
		}
		txt := fmt.Sprintf("%s %d %s %s %s", j.Name, j.TTL, dns.Class(class).String(), dns.Type(j.Type).String(), j.Data)
		rr, perr := dns.NewRR(txt)
		if perr != nil || rr == nil {
			return nil, fmt.Errorf("record %q does not parse: %v", txt, perr)
		}
		out = append(out, vdns.RRString(rr, true))
	}

	return out, nil
}

// c01CompareJSON compares a JSON answer with H's result.
func c01CompareJSON(t string, q dns.Question, want c01Tuple, jm *c01JSONMsg) (fs []vrt.Finding) {
	if jm.Status == nil {
		return vrt.F(t+"/answer-differs-from-seam", "JSON body without Status")
	}
	if len(jm.Question) != 1 || jm.Question[0].Name != q.Name || jm.Question[0].Type != q.Qtype {
		fs = append(fs, vrt.F(t+"/response-question-differs", "request question %q type %d, JSON question %+v", q.Name, q.Qtype, jm.Question)...)
	}
	an, err := c01JSONSection(jm.Answer)
	if err != nil {
		return append(fs, vrt.F(t+"/record-unparseable", "Answer: %v", err)...)
	}
	ex, err := c01JSONSection(jm.Extra)
	if err != nil {
		return append(fs, vrt.F(t+"/record-unparseable", "Extra: %v", err)...)
	}
	if *jm.Status != want.Rcode || !c01SameStrings(an, want.An) || !c01SameStrings(ex, want.Ex) {
		fs = append(fs, vrt.F(t+"/answer-differs-from-seam", "want %s; JSON Status=%d Answer=%.200q Extra=%.200q", want, *jm.Status, an, ex)...)
	}
	switch {
	case jm.Authority == nil:
		if len(want.Ns) > 0 {
			fs = append(fs, vrt.F(t+"/authority-missing", "the pipeline's authority section %.200q is not in the JSON answer (no Authority member)", want.Ns)...)
		}
	default:
		ns, nerr := c01JSONSection(*jm.Authority)
		if nerr != nil {
			return append(fs, vrt.F(t+"/record-unparseable", "Authority: %v", nerr)...)
		}
		if !c01SameStrings(ns, want.Ns) {
			fs = append(fs, vrt.F(t+"/answer-differs-from-seam", "want authority %.200q; JSON Authority=%.200q", want.Ns, ns)...)
		}
	}

	return fs
}

func c01HasKeepAlive(m *dns.Msg) bool {
	if opt := m.IsEdns0(); opt != nil {
		for _, e := range opt.Option {
			if e.Option() == dns.EDNS0TCPKEEPALIVE {
				return true
			}
		}
	}

	return false
}

// c01IsServfailSubstitute reports whether m is the documented substitute for
// "nothing was written" on DoQ and DNSCrypt.
func c01IsServfailSubstitute(m *dns.Msg) bool {
	t := c01TupleOf(m)

	return t.Rcode == dns.RcodeServerFailure && t.empty()
}

// c01CheckQueryOn compares what transport t showed for the well-formed query
// wire (decoded: req) with H's result.
func c01CheckQueryOn(r *vrt.Run, t string, wire []byte, req *dns.Msg, res c01Result, obs c01TObs) (fs []vrt.Finding) {
	q := req.Question[0]
	want := c01TupleOfResult(res)
	class := func(s string) { r.Class("query:" + t + " " + res.Kind + " -> " + s) }
	fs = append(fs, c01DisposeFindings(t)...)
	fs = append(fs, obs.Findings...)
	if obs.Panicked != "" {
		return append(fs, vrt.F(t+"/panic-escapes", "query %q %s: %s", q.Name, res.Kind, obs.Panicked)...)
	}
	if obs.Garbled != "" {
		return append(fs, vrt.F(t+"/garbled-stream", "query %q: %s", q.Name, obs.Garbled)...)
	}
	if len(obs.Msgs) > 1 {
		return append(fs, vrt.F(t+"/two-responses", "query %q: %d responses: %s | %s", q.Name, len(obs.Msgs), vdns.Canon(obs.Msgs[0], true), vdns.Canon(obs.Msgs[1], true))...)
	}
	keepAlive := false
	var adv uint16
	if opt := req.IsEdns0(); opt != nil {
		adv = opt.UDPSize()
		for _, e := range opt.Option {
			keepAlive = keepAlive || e.Option() == dns.EDNS0TCPKEEPALIVE
		}
	}
	ignoreID := c01IsJSON(t)
	// Echo clauses hold whatever H did.
	for _, m := range obs.Msgs {
		fs = append(fs, c01EchoFindings(t, req, wire, m, ignoreID)...)
	}
	answered := len(obs.Msgs) == 1 || obs.JSON != nil

	switch res.Kind {
	case c01KindSilent, c01KindPanic:
		// The statement is silent about what a client gets when the pipeline
		// produced nothing; documented: drop (UDP), close (TCP/DoT), HTTP
		// 500, SERVFAIL substitute (DoQ, DNSCrypt).
		switch {
		case !answered:
			class(obs.note())
		case obs.JSON != nil && obs.JSON.Status != nil && *obs.JSON.Status == dns.RcodeServerFailure && len(obs.JSON.Answer) == 0:
			class("SERVFAIL")
		case len(obs.Msgs) == 1 && c01IsServfailSubstitute(obs.Msgs[0]):
			class("SERVFAIL substitute")
		default:
			desc := "JSON"
			if len(obs.Msgs) == 1 {
				desc = vdns.Canon(obs.Msgs[0], true)
			}
			fs = append(fs, vrt.F(t+"/silent-handler-answered", "the pipeline wrote nothing for %q, the client got %s", q.Name, desc)...)
		}

		return fs
	}

	if !answered {
		if t == "doq" && keepAlive && obs.Closed {
			// RFC 9250 5.5.2 and validQUICMsg: a protocol error.
			class("edns-tcp-keepalive is a DoQ protocol error")

			return fs
		}

		return append(fs, vrt.F(t+"/no-response-to-query", "query %q %s class %d edns=%v: %s; the pipeline produced %s",
			q.Name, dns.Type(q.Qtype), q.Qclass, req.IsEdns0() != nil, obs.note(), want)...)
	}
	if obs.JSON != nil {
		class("json")
		r.State(fmt.Sprintf("%s|%s|json|%d|%d|%d", t, res.Kind, *obs.JSON.Status, len(obs.JSON.Answer), len(obs.JSON.Extra)))

		return append(fs, c01CompareJSON(t, q, want, obs.JSON)...)
	}
	m := obs.Msgs[0]
	got := c01TupleOf(m)
	stateMsg := m
	if ignoreID {
		// The ID is the server's random choice.
		stateMsg = m.Copy()
		stateMsg.Id = 0
	}
	r.State(t + "|" + vdns.Canon(stateMsg, true))
	if m.Truncated {
		class("truncated")
		datagram := t == "udp" || t == "dnscrypt-udp"
		full := c01FullLen(req, res)
		if !datagram || full+40 <= c01UDPLimit(adv) {
			fs = append(fs, vrt.F(t+"/truncated-without-need", "query %q advertising %d: TC set although the full response is %d octets", q.Name, adv, full)...)
		}
		if got.Rcode != want.Rcode || !c01IsPrefix(got.An, want.An) || !c01IsPrefix(got.Ns, want.Ns) || !c01IsPrefix(got.Ex, want.Ex) {
			fs = append(fs, vrt.F(t+"/answer-differs-from-seam", "truncated response is not a part of the pipeline's: want %s, got %s", want, got)...)
		}

		return fs
	}
	class("full")
	if !got.equal(want) {
		fs = append(fs, vrt.F(t+"/answer-differs-from-seam", "query %q %s class %d: the pipeline produced %s; the client got %s",
			q.Name, dns.Type(q.Qtype), q.Qclass, want, got)...)
	}

	return fs
}

// c01SkipJSON reports whether a query is outside what the JSON API documents
// ("a number in [1, 65535]").
func c01SkipJSON(q dns.Question) bool { return q.Qtype == 0 || q.Qclass == 0 }

// c01RunQuery is one case of the agreement part.
func c01RunQuery(r *vrt.Run, c c01Query) (fs []vrt.Finding) {
	rig := c01GetRig()
	req := c01QueryMsg(c)
	wire := c01MustPack(req)
	sp := c01Classify(wire)
	if sp.Ref == nil || !strings.HasPrefix(sp.Class, "query-") {
		vrt.Fatalf("c01: tier B query %+v is not a well-formed query (class %s)", c, sp.Class)
	}
	// Tier A's result for the same message.
	fs = append(fs, c01CheckSeam(r, wire)...)
	for _, t := range c01Transports {
		if c01IsJSON(t) && c01SkipJSON(req.Question[0]) {
			continue
		}
		w, rq := wire, sp.Ref
		if t == "doq" {
			// RFC 9250 4.2.1: the Message ID MUST be 0 over DoQ.
			w = append([]byte{}, wire...)
			w[0], w[1] = 0, 0
			rq = sp.Ref.Copy()
			rq.Id = 0
		}
		obs := c01Send(rig, t, w, rq, false)
		r.Trans(1)
		fs = append(fs, c01CheckQueryOn(r, t, w, rq, sp.H, obs)...)
	}
	// Pipelining: the same message followed by a sentinel on one TCP and one
	// TLS connection; both frames must come back intact.
	sent := c01SentinelMsg()
	sentWire := c01MustPack(sent)
	for _, t := range []string{"tcp", "dot"} {
		s := rig.plain
		if t == "dot" {
			s = rig.dot
		}
		both := c01TCPStream(s, [][]byte{c01Frame(wire), c01Frame(sentWire)})
		first, second := both[0], both[1]
		r.Trans(1)
		fs = append(fs, c01CheckQueryOn(r, t, wire, sp.Ref, sp.H, first)...)
		if first.Closed {
			// Documented for "nothing written".
			continue
		}
		r.Trans(1)
		fs = append(fs, c01CheckSentinel(r, t, "same-connection", sentWire, sent, second)...)
	}

	return fs
}

// ---- Sentinel ----------------------------------------------------------------------------------

func c01SentinelMsg() *dns.Msg {
	return vdns.NewReq(0x5e17, "Ok.Sentinel.Example.", dns.TypeA, dns.ClassINET)
}

// c01CheckSentinel requires the sentinel to be answered normally.
func c01CheckSentinel(r *vrt.Run, t, after string, wire []byte, req *dns.Msg, obs c01TObs) (fs []vrt.Finding) {
	q := req.Question[0]
	res := c01H(q.Name, q.Qtype, q.Qclass)
	sub := c01CheckQueryOn(r, t, wire, req, res, obs)
	if len(sub) == 0 {
		return nil
	}

	return vrt.F(t+"/sentinel-not-answered", "after %s the sentinel query was not answered normally: [%s] %s", after, sub[0].Key, sub[0].Detail)
}

func c01SendSentinel(r *vrt.Run, rig *c01Rig, t, after string) []vrt.Finding {
	req := c01SentinelMsg()
	if t == "doq" {
		req.Id = 0
	}
	wire := c01MustPack(req)
	obs := c01Send(rig, t, wire, req, false)
	r.Trans(1)

	return c01CheckSentinel(r, t, after, wire, req, obs)
}

// ---- Malformed input per transport ----------------------------------------------------------------

// c01BadCase is one malformed input on one transport.
type c01BadCase struct {
	T    string `json:"t"`
	What string `json:"what"`
}

// c01BadWire are the malformed DNS messages sent over every wire transport.
func c01BadWire() (names []string, wires map[string][]byte) {
	wires = map[string][]byte{}
	add := func(n string, w []byte) { names = append(names, n); wires[n] = w }
	q := c01MustPack(vdns.NewReq(0x4242, "Ok.ExAmple.", dns.TypeA, dns.ClassINET))
	flags := func(f uint16) []byte {
		w := append([]byte{}, q...)
		binary.BigEndian.PutUint16(w[2:], f)

		return w
	}
	counts := func(qd, an, ns, ar int) []byte {
		w := c01FlagsWire(c01FlagsCase{Flags: 0x0100, Qd: qd, An: an, Ns: ns, Ar: ar})
		binary.BigEndian.PutUint16(w, 0x4343)

		return w
	}
	add("empty", []byte{})
	add("five-octets", q[:5])
	add("header-only", q[:12])
	add("question-cut", q[:len(q)-3])
	add("pointer-loop", c01QuestionWire(0x4444, 0x0100, []byte{2, 'o', 'k', 0xC0, 15}, dns.TypeA, dns.ClassINET))
	add("response", flags(0x8180))
	add("response-with-answer", c01Seeds()[11])
	add("opcode-3", flags(3<<11|0x0100))
	add("opcode-6", flags(6<<11|0x0100))
	add("opcode-15", flags(15<<11|0x0100))
	add("opcode-status", flags(2<<11|0x0100))
	add("opcode-update", c01Seeds()[12])
	add("qd-0", counts(0, 0, 0, 0))
	add("qd-0-ar-1", counts(0, 0, 0, 1))
	add("qd-2", counts(2, 0, 0, 0))
	add("an-2", counts(1, 2, 0, 0))
	add("ns-2", counts(1, 0, 2, 1))
	add("qd-2-response", func() []byte { w := counts(2, 0, 0, 0); w[2] |= 0x80; return w }())
	add("trailing-garbage", append(append([]byte{}, q...), 0xde, 0xad, 0xbe))

	return names, wires
}

// c01BadSpecific are the malformed inputs that exist on one transport only.
var c01BadSpecific = map[string][]string{
	"tcp":      {"tcp-short-frame", "tcp-zero-length", "tcp-one-octet"},
	"dot":      {"tcp-short-frame", "tcp-zero-length", "tcp-one-octet"},
	"doq":      {"doq-length-too-big", "doq-length-too-small", "doq-no-prefix", "doq-empty-stream", "doq-keepalive"},
	"doh-post": {"post-empty-body", "put-method", "other-path", "post-no-content-type"},
	"doh-get":  {"get-no-dns-param", "get-two-dns-params", "get-std-base64-padded", "get-bad-base64", "get-empty-dns-param"},
	"doh-json": {
		"json-no-name", "json-empty-name", "json-type-garbage", "json-type-65536", "json-type-negative", "json-qc-garbage",
		"json-cd-2", "json-do-maybe", "json-label-too-long", "json-name-too-long",
	},
}

// c01GoodForGet is a well-formed query whose base64url form needs no padding
// but whose standard form differs (it contains '-' or '_').
func c01GoodForGet() (wire []byte, req *dns.Msg) {
	for id := uint16(0x6000); id < 0x7000; id++ {
		req = vdns.NewReq(id, "Ok.ExAmple.", dns.TypeA, dns.ClassINET)
		wire = c01MustPack(req)
		if strings.ContainsAny(base64.RawURLEncoding.EncodeToString(wire), "-_") {
			return wire, req
		}
	}
	vrt.Fatalf("c01: no id gives a base64url form with - or _")

	return nil, nil
}

// c01SendRaw sends arbitrary bytes as one DNS message in the framing of the
// wire transport t.
func c01SendRaw(rig *c01Rig, t string, w []byte) (obs c01TObs) {
	switch t {
	case "udp":
		return c01UDP(rig, w)
	case "tcp":
		return c01TCP(rig.plain, c01Frame(w))
	case "dot":
		return c01TCP(rig.dot, c01Frame(w))
	case "doq":
		return c01DoQ(rig, c01Frame(w))
	case "doh-post":
		return c01HTTP(rig, http.MethodPost, PathDoH, w, false)
	case "doh-get":
		return c01HTTP(rig, http.MethodGet, PathDoH+"?dns="+base64.RawURLEncoding.EncodeToString(w), nil, false)
	case "dnscrypt-udp":
		return c01Crypt(rig, true, w)
	case "dnscrypt-tcp":
		return c01Crypt(rig, false, w)
	}
	vrt.Fatalf("c01: %q is not a wire transport", t)

	return obs
}

// c01WireTransports are the transports that carry the client's own bytes.
var c01WireTransports = []string{"udp", "tcp", "dot", "doq", "doh-post", "doh-get", "dnscrypt-udp", "dnscrypt-tcp"}

// c01CheckWireOn judges what transport t showed for arbitrary bytes sent as
// one message.
func c01CheckWireOn(r *vrt.Run, t, what string, wire []byte, obs c01TObs) (fs []vrt.Finding) {
	switch {
	case obs.Skipped:
		r.Class("bad:" + t + " -> dropped by the dnscrypt library")

		return nil
	case obs.Panicked != "":
		return append(obs.Findings, vrt.F(t+"/panic-escapes", "input %s: %s", what, obs.Panicked)...)
	case obs.Garbled != "":
		return append(obs.Findings, vrt.F(t+"/garbled-stream", "input %s: %s", what, obs.Garbled)...)
	}
	sp := c01Classify(wire)
	if sp.Ref != nil && strings.HasPrefix(sp.Class, "query-") {
		return c01CheckQueryOn(r, t, wire, sp.Ref, sp.H, obs)
	}
	if sp.Allowed[c01TH] && len(obs.Msgs) == 1 {
		// Treating the message as a query is one of the documented options
		// (NOTIFY, one record in the answer or authority section); if the
		// server took it, the query clauses (incl. size truncation) apply.
		if rc := obs.Msgs[0].Rcode; rc != dns.RcodeFormatError && rc != dns.RcodeNotImplemented {
			return c01CheckQueryOn(r, t, wire, sp.Ref, sp.H, obs)
		}
	}

	return c01CheckBadWire(r, t, what, wire, obs)
}

// c01RunBad is one case of the malformed part.
func c01RunBad(r *vrt.Run, c c01BadCase) (fs []vrt.Finding) {
	rig := c01GetRig()
	t := c.T
	_, wires := c01BadWire()
	good, goodReq := c01GoodForGet()

	var obs c01TObs
	var wire []byte  // the DNS message the input carries, if any
	carries := false // whether the input carries a DNS message in the transport's framing
	if w, ok := wires[c.What]; ok {
		wire, carries = w, true
		obs = c01SendRaw(rig, t, w)
	} else {
		s := rig.plain
		if t == "dot" {
			s = rig.dot
		}
		jsonT := func(v url.Values) string { return PathJSON + "?" + v.Encode() }
		switch c.What {
		case "tcp-short-frame":
			obs = c01TCP(s, append([]byte{0, 40}, good[:20]...))
		case "tcp-zero-length":
			obs = c01TCP(s, []byte{0, 0})
		case "tcp-one-octet":
			obs = c01TCP(s, []byte{0})
		case "doq-length-too-big":
			obs = c01DoQ(rig, append(binary.BigEndian.AppendUint16(nil, uint16(len(good)+2)), good...))
		case "doq-length-too-small":
			obs = c01DoQ(rig, append(binary.BigEndian.AppendUint16(nil, uint16(len(good)-2)), good...))
		case "doq-no-prefix":
			obs = c01DoQ(rig, good)
		case "doq-empty-stream":
			obs = c01DoQ(rig, nil)
		case "doq-keepalive":
			m := c01QueryMsg(c01Query{Name: "Ok.ExAmple.", Qtype: dns.TypeA, Qclass: dns.ClassINET, RD: true, EDNS: "keepalive"})
			m.Id = 0
			obs = c01DoQ(rig, c01Frame(c01MustPack(m)))
		case "post-empty-body":
			obs = c01HTTP(rig, http.MethodPost, PathDoH, []byte{}, false)
		case "put-method":
			obs = c01HTTP(rig, http.MethodPut, PathDoH, good, false)
			wire = good
		case "other-path":
			obs = c01HTTP(rig, http.MethodPost, "/other", good, false)
			wire = good
		case "post-no-content-type":
			// RFC 8484 requires the media type; the statement does not say
			// what happens without it.
			h := &httpHandler{srv: rig.doh, localAddr: c01TCPLocal}
			hr := httptest.NewRequest(http.MethodPost, "https://dns.example"+PathDoH, bytes.NewReader(good))
			hr.RemoteAddr = "198.51.100.7:40000"
			rec := httptest.NewRecorder()
			obs.Panicked = vrt.Catch(func() { h.ServeHTTP(rec, hr) })
			obs.HTTPStatus = rec.Code
			if rec.Code == http.StatusOK && rec.Body.Len() > 0 {
				m := &dns.Msg{}
				if err := m.Unpack(rec.Body.Bytes()); err != nil {
					obs.Garbled = err.Error()
				} else {
					obs.Msgs = []*dns.Msg{m}
				}
			}
			wire = good
		case "get-no-dns-param":
			obs = c01HTTP(rig, http.MethodGet, PathDoH, nil, false)
		case "get-empty-dns-param":
			obs = c01HTTP(rig, http.MethodGet, PathDoH+"?dns=", nil, false)
		case "get-two-dns-params":
			e := base64.RawURLEncoding.EncodeToString(good)
			obs = c01HTTP(rig, http.MethodGet, PathDoH+"?dns="+e+"&dns="+e, nil, false)
			wire = good
		case "get-std-base64-padded":
			// Not the encoding RFC 8484 prescribes.
			obs = c01HTTP(rig, http.MethodGet, PathDoH+"?dns="+url.QueryEscape(base64.StdEncoding.EncodeToString(good)), nil, false)
			wire = good
		case "get-bad-base64":
			obs = c01HTTP(rig, http.MethodGet, PathDoH+"?dns=%21%21%21%21", nil, false)
		case "json-no-name":
			obs = c01HTTP(rig, http.MethodGet, jsonT(url.Values{"type": {"A"}}), nil, true)
		case "json-empty-name":
			obs = c01HTTP(rig, http.MethodGet, jsonT(url.Values{"name": {""}, "type": {"A"}}), nil, true)
		case "json-type-garbage":
			obs = c01HTTP(rig, http.MethodGet, jsonT(url.Values{"name": {"ok.example."}, "type": {"garbage"}}), nil, true)
		case "json-type-65536":
			obs = c01HTTP(rig, http.MethodGet, jsonT(url.Values{"name": {"ok.example."}, "type": {"65536"}}), nil, true)
		case "json-type-negative":
			obs = c01HTTP(rig, http.MethodGet, jsonT(url.Values{"name": {"ok.example."}, "type": {"-1"}}), nil, true)
		case "json-qc-garbage":
			obs = c01HTTP(rig, http.MethodGet, jsonT(url.Values{"name": {"ok.example."}, "qc": {"garbage"}}), nil, true)
		case "json-cd-2":
			obs = c01HTTP(rig, http.MethodGet, jsonT(url.Values{"name": {"ok.example."}, "cd": {"2"}}), nil, true)
		case "json-do-maybe":
			obs = c01HTTP(rig, http.MethodGet, jsonT(url.Values{"name": {"ok.example."}, "do": {"maybe"}}), nil, true)
		case "json-label-too-long":
			obs = c01HTTP(rig, http.MethodGet, jsonT(url.Values{"name": {c01MixedLabel(64, "ok") + ".example."}}), nil, true)
		case "json-name-too-long":
			n := strings.Repeat(c01MixedLabel(63, "ok")+".", 4) + "example."
			obs = c01HTTP(rig, http.MethodGet, jsonT(url.Values{"name": {n}}), nil, true)
		default:
			vrt.Fatalf("c01: bad case %+v", c)
		}
	}
	r.Trans(1)

	switch {
	case carries:
		fs = append(fs, c01CheckWireOn(r, t, c.What, wire, obs)...)
	case obs.Panicked != "":
		fs = append(fs, vrt.F(t+"/panic-escapes", "malformed input %s: %s", c.What, obs.Panicked)...)
	case obs.Garbled != "":
		fs = append(fs, vrt.F(t+"/garbled-stream", "malformed input %s: %s", c.What, obs.Garbled)...)
	default:
		fs = append(fs, c01CheckBadFraming(r, t, c.What, wire, goodReq, obs)...)
	}

	// The listener object still answers.
	return append(fs, c01SendSentinel(r, rig, t, "malformed input "+c.What)...)
}

// c01CheckBadWire judges the treatment of a DNS message that arrived intact
// in the transport's framing but is not an acceptable query.
func c01CheckBadWire(r *vrt.Run, t, what string, wire []byte, obs c01TObs) (fs []vrt.Finding) {
	fs = append(fs, c01DisposeFindings(t)...)
	fs = append(fs, obs.Findings...)
	sp := c01Classify(wire)
	got := c01Treatment(sp, obs.Msgs)
	allowed := map[string]bool{}
	for k := range sp.Allowed {
		allowed[k] = true
	}
	substitute := false
	switch {
	case strings.HasPrefix(t, "doh"):
		// "FORMERR / NOTIMP body or non-200".
		if len(obs.Msgs) == 0 && obs.HTTPStatus != http.StatusOK {
			allowed[c01TNone] = true
		}
	case t == "doq" || strings.HasPrefix(t, "dnscrypt"):
		// Documented substitute for "nothing written": SERVFAIL with the same
		// ID and question (serveQUICStream, dnsCryptHandler.ServeDNS).
		if allowed[c01TNone] && len(obs.Msgs) == 1 && c01IsServfailSubstitute(obs.Msgs[0]) && sp.Ref != nil {
			substitute = true
		}
	}
	if t == "doq" && sp.Ref != nil && len(obs.Msgs) == 0 && obs.Closed && c01HasKeepAlive(sp.Ref) {
		// RFC 9250 5.5.2 and validQUICMsg: a protocol error whatever else the
		// message is.
		allowed[c01TNone] = true
	}
	if (t == "tcp" || t == "dot") && sp.Allowed[c01TNone] && sp.H.Kind == "" && len(obs.Msgs) == 0 && !obs.Closed {
		// serveTCPMessage: "Nothing has been written, we should close the
		// connection in order to avoid hanging connections."
		fs = append(fs, vrt.F(t+"/dropped-message-connection-left-open", "malformed input %s (class %s): nothing written and the connection is left open", what, sp.Class)...)
	}
	if strings.HasPrefix(t, "doh") && sp.Allowed[c01TNone] && len(obs.Msgs) == 0 && obs.HTTPStatus == http.StatusOK {
		// A dropped message must not look like a successful exchange.
		fs = append(fs, vrt.F(t+"/dropped-message-gets-200", "malformed input %s (class %s): HTTP 200 with an empty body", what, sp.Class)...)
	}
	desc := got
	if substitute {
		desc = "SERVFAIL substitute"
	} else if len(obs.Msgs) == 0 {
		desc = obs.note()
	}
	r.Class("bad:" + t + " " + sp.Class + " -> " + desc)
	r.State("bad|" + t + "|" + what + "|" + desc)
	if !substitute {
		spT := sp
		spT.Allowed = allowed
		fs = append(fs, c01TreatmentFindings(t, spT, got, obs.Msgs)...)
	}
	for _, m := range obs.Msgs {
		fs = append(fs, c01EchoFindings(t, sp.Ref, wire, m, false)...)
	}

	return fs
}

// c01CheckBadFraming judges the treatment of an input that violates the
// transport's own framing or parameters.  The documented treatment is an
// error at the transport level (close, non-200).  The statement is silent on
// inputs from which a well-formed query can still be recovered (wire != nil):
// a normal answer to exactly that query is tolerated.
func c01CheckBadFraming(r *vrt.Run, t, what string, wire []byte, goodReq *dns.Msg, obs c01TObs) (fs []vrt.Finding) {
	fs = append(fs, c01DisposeFindings(t)...)
	fs = append(fs, obs.Findings...)
	switch {
	case obs.JSON != nil:
		st := -1
		if obs.JSON.Status != nil {
			st = *obs.JSON.Status
		}
		r.Class("bad:" + t + " " + what + " -> json status " + strconv.Itoa(st))
		if st != dns.RcodeFormatError && st != dns.RcodeNotImplemented && st != dns.RcodeServerFailure {
			fs = append(fs, vrt.F(t+"/invalid-parameter-answered", "%s: HTTP 200 with Status %d Question %+v Answer %+v", what, st, obs.JSON.Question, obs.JSON.Answer)...)
		}
	case len(obs.Msgs) == 0:
		r.Class("bad:" + t + " " + what + " -> " + obs.note())
		if strings.HasPrefix(t, "doh") && obs.HTTPStatus == http.StatusOK {
			fs = append(fs, vrt.F(t+"/dropped-message-gets-200", "%s: HTTP 200 with an empty body", what)...)
		}
	case len(obs.Msgs) > 1:
		fs = append(fs, vrt.F(t+"/two-responses", "%s: %d responses", what, len(obs.Msgs))...)
	default:
		m := obs.Msgs[0]
		tu := c01TupleOf(m)
		isErr := tu.empty() && (tu.Rcode == dns.RcodeFormatError || tu.Rcode == dns.RcodeNotImplemented || tu.Rcode == dns.RcodeServerFailure)
		switch {
		case wire != nil:
			q := goodReq.Question[0]
			if !isErr && !tu.equal(c01TupleOfResult(c01H(q.Name, q.Qtype, q.Qclass))) {
				fs = append(fs, vrt.F(t+"/malformed-framing-answered", "%s: %s", what, vdns.Canon(m, true))...)
			}
			fs = append(fs, c01EchoFindings(t, goodReq, wire, m, false)...)
			r.Class("bad:" + t + " " + what + " -> answered " + dns.RcodeToString[tu.Rcode])
		case !isErr:
			fs = append(fs, vrt.F(t+"/malformed-framing-answered", "%s: %s", what, vdns.Canon(m, true))...)
		default:
			r.Class("bad:" + t + " " + what + " -> " + dns.RcodeToString[tu.Rcode])
		}
	}

	return fs
}

// c01TByteCase is one byte-level mutation sent over one transport.
type c01TByteCase struct {
	T string      `json:"t"`
	B c01ByteCase `json:"b"`
}

// ---- Handler panic per transport ---------------------------------------------------------------------

// c01PanicCase is one query whose handler panics, on one transport.
type c01PanicCase struct {
	T     string `json:"t"`
	Qtype uint16 `json:"qtype"`
	EDNS  string `json:"edns"`
}

func c01RunPanic(r *vrt.Run, c c01PanicCase) (fs []vrt.Finding) {
	rig := c01GetRig()
	req := c01QueryMsg(c01Query{Name: "Panic.example.", Qtype: c.Qtype, Qclass: dns.ClassINET, RD: true, EDNS: c.EDNS})
	if c.T == "doq" {
		req.Id = 0
	}
	wire := c01MustPack(req)
	q := req.Question[0]
	obs := c01Send(rig, c.T, wire, req, true)
	r.Trans(1)
	// Escaping panic, anything but "nothing / SERVFAIL", wrong echo.
	fs = append(fs, c01CheckQueryOn(r, c.T, wire, req, c01H(q.Name, q.Qtype, q.Qclass), obs)...)

	return append(fs, c01SendSentinel(r, rig, c.T, "a handler panic")...)
}

// ---- Tier B ---------------------------------------------------------------------------------------------

func c01TierB(r *vrt.Run) {
	names := c01QueryNames()
	r.Bound("transports", len(c01Transports))
	r.Bound("query_names", len(names))
	r.Bound("query_edns_kinds", len(c01EDNSKinds))
	r.Bound("query_product", vrt.Pick(r, "names x qtypes x qclasses (RD) + names x {A,TXT} x RD/AD/CD x EDNS kinds", "names x qtypes x qclasses x RD/AD/CD x EDNS kinds"))
	vrt.Part(r, "transport-agreement",
		func(emit func(c01Query)) {
			if r.Thorough() {
				for _, n := range names {
					for _, qt := range c01Qtypes {
						for _, qc := range c01Qclasses {
							for fl := 0; fl < 8; fl++ {
								for _, e := range c01EDNSKinds {
									emit(c01Query{Name: n, Qtype: qt, Qclass: qc, RD: fl&1 == 0, AD: fl&2 != 0, CD: fl&4 != 0, EDNS: e})
								}
							}
						}
					}
				}

				return
			}
			for _, n := range names {
				for _, qt := range c01Qtypes {
					for _, qc := range c01Qclasses {
						emit(c01Query{Name: n, Qtype: qt, Qclass: qc, RD: true, EDNS: "none"})
					}
				}
			}
			for _, n := range names {
				for _, qt := range []uint16{dns.TypeA, dns.TypeTXT} {
					for fl := 0; fl < 8; fl++ {
						for _, e := range c01EDNSKinds {
							emit(c01Query{Name: n, Qtype: qt, Qclass: dns.ClassINET, RD: fl&1 == 0, AD: fl&2 != 0, CD: fl&4 != 0, EDNS: e})
						}
					}
				}
			}
		},
		func(c c01Query) []vrt.Finding { return c01RunQuery(r, c) })

	// Every qtype and every qclass on every transport.
	allValues := vrt.Pick(r, 300, 65536)
	r.Bound("transport_all_qtypes_qclasses_below", allValues)
	vrt.Part(r, "transport-agreement-all-types",
		func(emit func(c01Query)) {
			for v := 0; v < allValues; v++ {
				emit(c01Query{Name: "Ok.ExAmple.", Qtype: uint16(v), Qclass: dns.ClassINET, RD: true, EDNS: "none"})
				emit(c01Query{Name: "Ok.ExAmple.", Qtype: dns.TypeA, Qclass: uint16(v), RD: true, EDNS: "1232"})
			}
		},
		func(c c01Query) []vrt.Finding { return c01RunQuery(r, c) })

	// The byte-level alphabet of tier A through every wire transport.
	r.Bound("transport_byte_ops", vrt.Pick(r, "seeds x (every truncation; every offset x {00,FF,C0,3F,b^80}) x 8 wire transports",
		"seeds x (every truncation; every offset x every other octet value) x 8 wire transports"))
	vrt.Part(r, "transport-bytes",
		func(emit func(c01TByteCase)) {
			c01ByteCases(r.Thorough(), func(b c01ByteCase) {
				for _, t := range c01WireTransports {
					emit(c01TByteCase{T: t, B: b})
				}
			})
		},
		func(c c01TByteCase) []vrt.Finding {
			wire := c01ByteWire(c.B)
			obs := c01SendRaw(c01GetRig(), c.T, wire)
			r.Trans(1)

			return c01CheckWireOn(r, c.T, fmt.Sprintf("seed %d %s at %d", c.B.Seed, c.B.Op, c.B.Off), wire, obs)
		})

	badNames, _ := c01BadWire()
	r.Bound("malformed_messages", len(badNames))
	vrt.Part(r, "transport-malformed",
		func(emit func(c01BadCase)) {
			for _, t := range c01Transports {
				if !c01IsJSON(t) {
					for _, n := range badNames {
						emit(c01BadCase{T: t, What: n})
					}
				}
				for _, n := range c01BadSpecific[t] {
					emit(c01BadCase{T: t, What: n})
				}
			}
		},
		func(c c01BadCase) []vrt.Finding { return c01RunBad(r, c) })

	vrt.Part(r, "transport-panic",
		func(emit func(c01PanicCase)) {
			for _, t := range c01Transports {
				for _, qt := range []uint16{dns.TypeA, dns.TypeTXT} {
					for _, e := range []string{"none", "all"} {
						emit(c01PanicCase{T: t, Qtype: qt, EDNS: e})
					}
				}
			}
		},
		func(c c01PanicCase) []vrt.Finding { return c01RunPanic(r, c) })
	// Vacuity guard for the poisoning disposer.
	r.Count("responses_handed_to_disposer", c01Disposer.disposed)
}
