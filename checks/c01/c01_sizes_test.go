//go:build verif

package dnsserver

// C01 size-history part: well-formed queries of wire sizes around and above
// the configured read-buffer sizes (ConfigDNS.UDPSize / TCPSize, 512 octets by
// default), sent as short SEQUENCES to one fresh server object per case (and
// over one connection where the transport keeps one), because what a receive
// path does with a message depends on the buffers earlier messages left in
// its pools.  Pool reuse is made deterministic the way checks/c06 does it:
// one P (unit option "gomaxprocs": 1), no garbage collection during a case,
// and the worker goroutine is let run until it has returned its buffer before
// the next message is delivered.

import (
	"bytes"
	"context"
	"encoding/binary"
	"fmt"
	"io"
	"net"
	"os"
	"runtime"
	"runtime/debug"
	"testing"
	"time"

	"github.com/AdguardTeam/AdGuardDNS/internal/dnsserver/zzverif/vdns"
	"github.com/AdguardTeam/AdGuardDNS/internal/dnsserver/zzverif/vrt"
	"github.com/AdguardTeam/golibs/log"
	"github.com/miekg/dns"
)

// c01Sizes are the wire sizes of the alphabet; 0 stands for an ordinary small
// query without EDNS.
var c01Sizes = []int{0, 500, 511, 512, 513, 700, 1500, 4000, 65000}

// c01SizeCase is one sequence of queries on one transport.
type c01SizeCase struct {
	T string `json:"t"`
	// Mode is "conn-per-msg" or "one-conn" for tcp and dot, "" otherwise.
	Mode string `json:"mode"`
	// Long selects the name of maximal length instead of a short one.
	Long  bool  `json:"long"`
	Sizes []int `json:"sizes"`
	// Seg, for tcp and dot, is how every frame is cut into the pieces single
	// Reads return: "" (one piece), "1", "2" (one cut at that offset), "1,-1"
	// (first | middle | last octet).
	Seg string `json:"seg,omitempty"`
}

var c01SizeSegs = []string{"", "1", "2", "1,-1"}

func c01SizeSegCuts(seg string) []int {
	switch seg {
	case "":
		return nil
	case "1":
		return []int{1}
	case "2":
		return []int{2}
	case "1,-1":
		return []int{1, -1}
	}
	vrt.Fatalf("c01: unknown segmentation %q", seg)

	return nil
}

// c01SizedQuery builds a well-formed query of exactly size octets on the wire
// (size 0: a plain query) by means of an EDNS padding option.
func c01SizedQuery(id uint16, long bool, size int) (m *dns.Msg, wire []byte) {
	name := "Ok.ExAmple."
	if long {
		name = c01QueryNames()[4]
	}
	m = vdns.NewReq(id, name, dns.TypeA, dns.ClassINET)
	if size == 0 {
		return m, c01MustPack(m)
	}
	m.SetEdns0(4096, false)
	pad := &dns.EDNS0_PADDING{}
	m.IsEdns0().Option = append(m.IsEdns0().Option, pad)
	base := len(c01MustPack(m))
	if size < base {
		vrt.Fatalf("c01: size %d is below the minimum %d of this query", size, base)
	}
	pad.Padding = make([]byte, size-base)
	wire = c01MustPack(m)
	if len(wire) != size {
		vrt.Fatalf("c01: built %d octets instead of %d", len(wire), size)
	}

	return m, wire
}

// c01Settle lets the worker goroutines run until they park again (single P),
// so that they have returned their buffers to the pools.
func c01Settle() {
	for i := 0; i < 30; i++ {
		runtime.Gosched()
	}
}

// c01GatedConn is an in-memory connection for the real serveTCPConn loop: it
// delivers one frame at a time and does not deliver the next one before the
// server has finished with the previous one (response written or worker
// parked, and the read buffer back in the pool) — a client that waits for
// each answer.
type c01GatedConn struct {
	frames [][]byte
	// cuts are the offsets at which every frame is cut into pieces; a Read
	// never crosses a cut.
	cuts   []int
	cur    int
	off    int
	out    bytes.Buffer
	closed bool
}

func (c *c01GatedConn) completeFrames() (n int) {
	b := c.out.Bytes()
	for len(b) >= 2 {
		l := int(binary.BigEndian.Uint16(b))
		if len(b) < 2+l {
			break
		}
		n++
		b = b[2+l:]
	}

	return n
}

func (c *c01GatedConn) gate() {
	for i := 0; i < 300 && c.completeFrames() < c.cur && !c.closed; i++ {
		runtime.Gosched()
	}
	c01Settle()
}

func (c *c01GatedConn) Read(p []byte) (n int, err error) {
	if c.closed {
		return 0, net.ErrClosed
	}
	if c.off == 0 && c.cur > 0 {
		c.gate()
		if c.closed {
			return 0, net.ErrClosed
		}
	}
	if c.cur >= len(c.frames) {
		return 0, io.EOF
	}
	f := c.frames[c.cur]
	end := len(f)
	for _, cut := range c.cuts {
		if cut < 0 {
			cut = len(f) + cut
		}
		if cut > c.off && cut < end {
			end = cut
		}
	}
	n = copy(p, f[c.off:end])
	c.off += n
	if c.off == len(c.frames[c.cur]) {
		c.cur, c.off = c.cur+1, 0
	}

	return n, nil
}

func (c *c01GatedConn) Write(p []byte) (n int, err error) {
	if c.closed {
		return 0, net.ErrClosed
	}

	return c.out.Write(p)
}
func (c *c01GatedConn) Close() error                       { c.closed = true; return nil }
func (c *c01GatedConn) LocalAddr() net.Addr                { return c01TCPLocal }
func (c *c01GatedConn) RemoteAddr() net.Addr               { return c01TCPRemote }
func (c *c01GatedConn) SetDeadline(_ time.Time) error      { return nil }
func (c *c01GatedConn) SetReadDeadline(_ time.Time) error  { return nil }
func (c *c01GatedConn) SetWriteDeadline(_ time.Time) error { return nil }

// c01ServeTCPConn runs the real connection loop serveTCPConn (with its
// recover and its close) on a connection carrying the given messages and
// returns what was written, per message, matched by ID.
func c01ServeTCPConn(s *ServerDNS, reqs []*dns.Msg, wires [][]byte, cuts []int) (obs []c01TObs) {
	conn := &c01GatedConn{cuts: cuts}
	for _, w := range wires {
		conn.frames = append(conn.frames, c01Frame(w))
	}
	s.wg.Add(1)
	panicked := vrt.Catch(func() { s.serveTCPConn(context.Background(), conn) })
	c01Settle()
	all := c01TObs{}
	c01DecodeFrames(conn.out.Bytes(), &all)
	obs = make([]c01TObs, len(reqs))
	used := make([]bool, len(all.Msgs))
	for i, req := range reqs {
		obs[i].Panicked, obs[i].Garbled, obs[i].Closed = panicked, all.Garbled, conn.closed
		for j, m := range all.Msgs {
			if !used[j] && m.Id == req.Id {
				used[j] = true
				obs[i].Msgs = append(obs[i].Msgs, m)
			}
		}
	}
	for j, m := range all.Msgs {
		if !used[j] && len(obs) > 0 && obs[0].Garbled == "" {
			obs[0].Garbled = "a response that belongs to none of the queries: " + vdns.Canon(m, true)
		}
	}

	return obs
}

// c01NewRigFor builds a fresh server object for transport t only.
func c01NewRigFor(t string) (rig *c01Rig, release func()) {
	rig = &c01Rig{metrics: &c01Metrics{}}
	base := func(name string) ConfigBase {
		return ConfigBase{Name: name, Addr: "192.0.2.53:53", Handler: c01Handler{}, Metrics: rig.metrics, Disposer: c01Disposer}
	}
	release = func() {}
	switch t {
	case "udp", "tcp":
		// Default UDPSize and TCPSize: 512.
		rig.plain = NewServerDNS(ConfigDNS{ConfigBase: base("c01-dns"), MaxUDPRespSize: dns.MaxMsgSize})
		rig.plain.started = true
		release = rig.plain.workerPool.Release
	case "dot":
		rig.dot = NewServerTLS(ConfigTLS{ConfigDNS: ConfigDNS{ConfigBase: base("c01-dot")}}).ServerDNS
		rig.dot.started = true
		release = rig.dot.workerPool.Release
	case "doq":
		rig.doq = NewServerQUIC(ConfigQUIC{ConfigBase: base("c01-doq")})
		release = rig.doq.pool.Release
	case "doh-post", "doh-get":
		rig.doh = NewServerHTTPS(ConfigHTTPS{ConfigBase: base("c01-doh")})
	case "dnscrypt-udp", "dnscrypt-tcp":
		rig.crypt = NewServerDNSCrypt(ConfigDNSCrypt{ConfigBase: base("c01-dnscrypt")})
	default:
		vrt.Fatalf("c01: no rig for %q", t)
	}

	return rig, release
}

// c01RunSizes is one case of the size-history part.
func c01RunSizes(r *vrt.Run, c c01SizeCase) (fs []vrt.Finding) {
	old := debug.SetGCPercent(-1)
	defer debug.SetGCPercent(old)
	rig, release := c01NewRigFor(c.T)
	defer release()

	var reqs []*dns.Msg
	var wires [][]byte
	for i, sz := range c.Sizes {
		id := uint16(0x6100 + i)
		if c.T == "doq" {
			id = 0
		}
		m, w := c01SizedQuery(id, c.Long, sz)
		reqs, wires = append(reqs, m), append(wires, w)
	}
	var obs []c01TObs
	switch {
	case c.Mode == "one-conn":
		s := rig.plain
		if c.T == "dot" {
			s = rig.dot
		}
		obs = c01ServeTCPConn(s, reqs, wires, c01SizeSegCuts(c.Seg))
	case c.T == "tcp" || c.T == "dot":
		s := rig.plain
		if c.T == "dot" {
			s = rig.dot
		}
		for i := range reqs {
			obs = append(obs, c01ServeTCPConn(s, reqs[i:i+1], wires[i:i+1], c01SizeSegCuts(c.Seg))...)
		}
	default:
		for i := range reqs {
			obs = append(obs, c01SendRaw(rig, c.T, wires[i]))
			c01Settle()
		}
	}
	r.Trans(len(reqs))

	q := reqs[0].Question[0]
	res := c01H(q.Name, q.Qtype, q.Qclass)
	for i := range reqs {
		// Tier A's result for the same message.
		fs = append(fs, c01CheckSeam(r, wires[i])...)
		if c.T == "udp" && len(wires[i]) > rig.plain.conf.UDPSize && len(obs[i].Msgs) == 0 && obs[i].Panicked == "" && obs[i].Garbled == "" {
			// ConfigDNS.UDPSize is documented as the size of the buffers
			// incoming UDP messages are read into; a client cannot expect a
			// larger datagram to be received.  Not judged.
			r.Class("sizes:udp query larger than UDPSize -> nothing sent (not judged)")

			continue
		}
		sub := c01CheckQueryOn(r, c.T, wires[i], reqs[i], res, obs[i])
		for _, f := range sub {
			f.Detail = fmt.Sprintf("message %d of sizes %v (%s, frames cut at %q): %s", i+1, c.Sizes, c.Mode, c.Seg, f.Detail)
			fs = append(fs, f)
		}
	}

	return fs
}

func TestVerifC01Sizes(t *testing.T) {
	log.SetOutput(io.Discard)
	if runtime.GOMAXPROCS(0) != 1 {
		runtime.GOMAXPROCS(1)
	}
	r := vrt.Start("C01")
	// Quick: every sequence of up to three sizes over {small, 512, 513, 700,
	// 4000} and small-X-small for the other sizes; thorough: every sequence of
	// up to three sizes over the whole alphabet.
	core := []int{0, 512, 513, 700, 4000}
	r.Bound("size_alphabet", fmt.Sprint(c01Sizes))
	r.Bound("size_sequences", vrt.Pick(r, "all sequences of <=3 over {small,512,513,700,4000} + small,X,small for X in {500,511,1500,65000}",
		"all sequences of <=3 over the 9 sizes"))
	type tm struct{ t, mode string }
	var tms []tm
	for _, tr := range c01WireTransports {
		if tr == "tcp" || tr == "dot" {
			tms = append(tms, tm{tr, "conn-per-msg"}, tm{tr, "one-conn"})
		} else {
			tms = append(tms, tm{tr, ""})
		}
	}
	vrt.Part(r, "size-history",
		func(emit func(c01SizeCase)) {
			alpha := core
			if r.Thorough() {
				alpha = c01Sizes
			}
			for _, x := range tms {
				segs := []string{""}
				if x.mode != "" {
					segs = c01SizeSegs
				}
				for _, seg := range segs {
					for _, long := range []bool{false, true} {
						vrt.Sequences(len(alpha), 1, 3, func(seq []int) {
							sizes := make([]int, len(seq))
							for i, k := range seq {
								sizes[i] = alpha[k]
							}
							emit(c01SizeCase{T: x.t, Mode: x.mode, Long: long, Sizes: sizes, Seg: seg})
						})
						if !r.Thorough() {
							for _, sz := range []int{500, 511, 1500, 65000} {
								emit(c01SizeCase{T: x.t, Mode: x.mode, Long: long, Sizes: []int{0, sz, 0}, Seg: seg})
							}
						}
					}
				}
			}
		},
		func(c c01SizeCase) []vrt.Finding { return c01RunSizes(r, c) })
	r.Count("responses_handed_to_disposer", c01Disposer.disposed)
	r.Finish()
	os.Exit(0)
}
