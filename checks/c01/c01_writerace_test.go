//go:build verif

package dnsserver

// C01, XS unit: pipelined queries on one TCP connection whose responses are
// written by concurrent workers to a connection that MODELS write deadlines.
// The write deadline is a property of the shared connection: a response whose
// request context has already expired sets a deadline in the past; if that
// can happen between another response's SetWriteDeadline and its Write, the
// other — well-formed, accepted, healthy — query loses its answer.
//
// This file is built alone, against an instrumented copy of serverdnstcp.go
// (sync shim, worker-pool submissions as schedulable tasks, scheduling points
// before the calls in WriteMsg; see check.json "instrument"), and explores
// all interleavings within a preemption bound with engine/xsched.  Time is
// harness-controlled: the connection compares deadlines with a fixed instant;
// healthy requests get a write timeout of an hour, the expired request a
// context whose deadline is in 1970.

import (
	"context"
	"encoding/binary"
	"fmt"
	"io"
	"net"
	"os"
	"runtime"
	"runtime/debug"
	"testing"
	"time"

	"github.com/AdguardTeam/AdGuardDNS/internal/dnsserver/zzverif/vrt"
	"github.com/AdguardTeam/AdGuardDNS/internal/dnsserver/zzverif/xsched"
	"github.com/AdguardTeam/AdGuardDNS/internal/dnsserver/zzverif/xsync"
	"github.com/AdguardTeam/golibs/log"
	"github.com/AdguardTeam/golibs/syncutil"
	"github.com/miekg/dns"
)

// c01wTimeoutErr is what a connection returns for an operation past its
// deadline.
type c01wTimeoutErr struct{}

func (c01wTimeoutErr) Error() string   { return "i/o timeout" }
func (c01wTimeoutErr) Timeout() bool   { return true }
func (c01wTimeoutErr) Temporary() bool { return true }
func (c01wTimeoutErr) Unwrap() error   { return os.ErrDeadlineExceeded }

// c01wConn is an in-memory connection that stores the write deadline and fails
// writes past it.  SetWriteDeadline and Write are scheduling points, like the
// system calls they stand for.
type c01wConn struct {
	now    time.Time
	in     []byte
	wdl    time.Time
	writes [][]byte
	events []string
}

func (c *c01wConn) Read(p []byte) (int, error) {
	if len(c.in) == 0 {
		return 0, io.EOF
	}
	n := copy(p, c.in)
	c.in = c.in[n:]

	return n, nil
}

func (c *c01wConn) Write(p []byte) (int, error) {
	xsched.Yield("conn: write")
	if !c.wdl.IsZero() && !c.wdl.After(c.now) {
		c.events = append(c.events, fmt.Sprintf("write of id %#x FAILS: the connection's write deadline is in the past", c01wID(p)))

		return 0, &net.OpError{Op: "write", Net: "tcp", Err: c01wTimeoutErr{}}
	}
	c.events = append(c.events, fmt.Sprintf("write of id %#x", c01wID(p)))
	c.writes = append(c.writes, append([]byte{}, p...))

	return len(p), nil
}

func c01wID(frame []byte) uint16 {
	if len(frame) < 4 {
		return 0
	}

	return binary.BigEndian.Uint16(frame[2:])
}

func (c *c01wConn) SetWriteDeadline(t time.Time) error {
	xsched.Yield("conn: set write deadline")
	c.wdl = t
	switch {
	case t.IsZero():
		c.events = append(c.events, "write deadline cleared")
	case !t.After(c.now):
		c.events = append(c.events, "write deadline set in the PAST")
	default:
		c.events = append(c.events, "write deadline set in the future")
	}

	return nil
}
func (c *c01wConn) Close() error        { return nil }
func (c *c01wConn) LocalAddr() net.Addr { return &net.TCPAddr{IP: net.IP{192, 0, 2, 53}, Port: 53} }
func (c *c01wConn) RemoteAddr() net.Addr {
	return &net.TCPAddr{IP: net.IP{198, 51, 100, 7}, Port: 40000}
}
func (c *c01wConn) SetDeadline(time.Time) error     { return nil }
func (c *c01wConn) SetReadDeadline(time.Time) error { return nil }

// c01wHandler answers with the request's ID and question, or returns the
// context's error if the request's context has expired.
type c01wHandler struct{}

func (c01wHandler) ServeDNS(ctx context.Context, rw ResponseWriter, req *dns.Msg) error {
	if err := ctx.Err(); err != nil {
		return err
	}
	resp := (&dns.Msg{}).SetReply(req)
	resp.Answer = []dns.RR{&dns.A{
		Hdr: dns.RR_Header{Name: req.Question[0].Name, Rrtype: dns.TypeA, Class: dns.ClassINET, Ttl: 60},
		A:   net.IPv4(10, 0, byte(req.Id>>8), byte(req.Id)).To4(),
	}}

	return rw.WriteMsg(ctx, req, resp)
}

// c01wCtx gives the k-th request (in the order the connection loop reads them)
// an already expired context.
type c01wCtx struct {
	calls   int
	expired int
}

func (c *c01wCtx) New() (ctx context.Context, cancel context.CancelFunc) {
	i := c.calls
	c.calls++
	if i == c.expired {
		return context.WithDeadline(context.Background(), time.Unix(1, 0))
	}

	return context.Background(), func() {}
}

func c01wQuery(i int) *dns.Msg {
	m := &dns.Msg{}
	m.SetQuestion(fmt.Sprintf("Pipelined-%d.Example.", i), dns.TypeA)
	m.Id = uint16(0x1100 * (i + 1))

	return m
}

type c01wEnv struct {
	conn    *c01wConn
	n       int
	expired int
	errs    []error
}

func c01wSetup(n, expired int, s *xsched.Sched) *c01wEnv {
	srv := NewServerDNS(ConfigDNS{
		ConfigBase: ConfigBase{
			Name: "c01-writerace", Addr: "192.0.2.53:53", Network: NetworkTCP, Handler: c01wHandler{},
			RequestContext: &c01wCtx{expired: expired},
		},
		// Healthy responses cannot run into their own write timeout.
		WriteTimeout: time.Hour,
	})
	srv.started = true
	srv.workerPool.Release()
	env := &c01wEnv{conn: &c01wConn{now: time.Now()}, n: n, expired: expired}
	for i := 0; i < n; i++ {
		b, _ := c01wQuery(i).Pack()
		env.conn.in = binary.BigEndian.AppendUint16(env.conn.in, uint16(len(b)))
		env.conn.in = append(env.conn.in, b...)
	}
	wg := &xsync.WaitGroup{}
	writeMu := &xsync.Mutex{}
	s.Go("conn-loop", func() {
		// The body of serveTCPConn: accept every pipelined message, then
		// wait for the workers.
		for i := 0; i < n; i++ {
			if err := srv.acceptTCPMsg(env.conn, wg, writeMu, time.Hour, syncutil.EmptySemaphore{}); err != nil {
				env.errs = append(env.errs, err)
			}
		}
		wg.Wait()
	})

	return env
}

func c01wCheck(env *c01wEnv, x *xsched.Exec) []vrt.Finding {
	if x.Sched.Panicked != "" {
		return vrt.F("tcp-pipeline/panic", "%s", x.Sched.Panicked)
	}
	if x.Sched.Deadlock || x.Sched.LimitHit {
		return vrt.F("tcp-pipeline/deadlock", "blocked %v", x.Sched.Blocked)
	}
	if len(env.errs) > 0 {
		return vrt.F("tcp-pipeline/message-not-accepted", "%v", env.errs)
	}
	var wire []byte
	for _, w := range env.conn.writes {
		wire = append(wire, w...)
	}
	answered := map[uint16]int{}
	for len(wire) > 0 {
		if len(wire) < 2 || len(wire) < 2+int(binary.BigEndian.Uint16(wire)) {
			return vrt.F("tcp-pipeline/garbled-stream", "the response stream ends inside a frame (%d octets left)\nschedule:\n%s", len(wire), x.Sched.Describe())
		}
		l := int(binary.BigEndian.Uint16(wire))
		m := &dns.Msg{}
		if err := m.Unpack(wire[2 : 2+l]); err != nil {
			return vrt.F("tcp-pipeline/garbled-stream", "a frame of %d octets does not decode: %v\nschedule:\n%s", l, err, x.Sched.Describe())
		}
		wire = wire[2+l:]
		var q *dns.Msg
		for i := 0; i < env.n; i++ {
			if c := c01wQuery(i); c.Id == m.Id {
				q = c
			}
		}
		if q == nil || !m.Response || len(m.Question) != 1 || m.Question[0] != q.Question[0] {
			return vrt.F("tcp-pipeline/response-question-differs", "a response with id %#x and question %v matches no pipelined query\nschedule:\n%s", m.Id, m.Question, x.Sched.Describe())
		}
		answered[m.Id]++
		if m.Id != c01wQuery(max(env.expired, 0)).Id || env.expired < 0 {
			// A query whose own context is fine gets the pipeline's answer, not
			// an error substitute.
			if m.Rcode != dns.RcodeSuccess || len(m.Answer) != 1 {
				return vrt.F("tcp-pipeline/healthy-query-answer-differs",
					"the response to query id %#x, whose own context is fine, is %s with %d answer records instead of the pipeline's answer\nconnection: %v\nschedule:\n%s",
					m.Id, dns.RcodeToString[m.Rcode], len(m.Answer), env.conn.events, x.Sched.Describe())
			}
		}
	}
	for i := 0; i < env.n; i++ {
		q := c01wQuery(i)
		n := answered[q.Id]
		switch {
		case i == env.expired:
			// Its own context had expired: no answer, or one, is fine.
			if n > 1 {
				return vrt.F("tcp-pipeline/two-responses", "query %d received %d responses\nschedule:\n%s", i, n, x.Sched.Describe())
			}
		case n == 0:
			return vrt.F("tcp-pipeline/healthy-query-unanswered-next-to-expired-one",
				"pipelined query %d (%s, id %#x), whose own context is fine, received no response; query %d on the same connection had an expired context\nconnection: %v\nschedule:\n%s",
				i, q.Question[0].Name, q.Id, env.expired, env.conn.events, x.Sched.Describe())
		case n > 1:
			return vrt.F("tcp-pipeline/two-responses", "query %d received %d responses\nschedule:\n%s", i, n, x.Sched.Describe())
		}
	}

	return nil
}

type c01wCase struct {
	N       int   `json:"messages"`
	Expired int   `json:"expired"`
	Choices []int `json:"choices"`
}

func TestVerifC01WriteRace(t *testing.T) {
	log.SetOutput(io.Discard)
	r := vrt.Start("C01")
	debug.SetGCPercent(-1)
	var rc c01wCase
	if r.ReplayCase("tcp-pipeline-write-deadline", &rc) {
		var env *c01wEnv
		x := xsched.Replay(rc.Choices, func(s *xsched.Sched) { env = c01wSetup(rc.N, rc.Expired, s) })
		r.Eval()
		r.Report("tcp-pipeline-write-deadline", rc, c01wCheck(env, x))
	}
	if r.ShouldRun() {
		shard, nshards := r.NShards()
		r.Bound("tcp_pipeline_write_deadline", vrt.Pick(r,
			"2 pipelined queries, expired one at each position or none, <=3 preemptions",
			"2 pipelined queries <=4 preemptions; 3 pipelined queries <=2 preemptions; expired one at each position or none"))
		type scen struct{ n, expired, pre int }
		var scens []scen
		for e := -1; e < 2; e++ {
			scens = append(scens, scen{2, e, vrt.Pick(r, 3, 4)})
		}
		if r.Thorough() {
			for e := -1; e < 3; e++ {
				scens = append(scens, scen{3, e, 2})
			}
		}
		execs := 0
		for si, sc := range scens {
			if si%nshards != shard {
				continue
			}
			var env *c01wEnv
			found := 0
			st := xsched.Explore(xsched.Config{MaxPreemptions: sc.pre, MaxDeviations: 0, Stop: r.Expired},
				func(s *xsched.Sched) {
					if execs++; execs%2000 == 0 {
						runtime.GC()
					}
					env = c01wSetup(sc.n, sc.expired, s)
				},
				func(x *xsched.Exec) bool {
					r.Eval()
					r.Trans(len(x.Sched.Trace))
					fs := c01wCheck(env, x)
					r.Class(fmt.Sprintf("write-race: %d pipelined, expired=%d -> %d responses written", sc.n, sc.expired, len(env.conn.writes)))
					r.State(fmt.Sprintf("write-race %d %d %v", sc.n, sc.expired, env.conn.events))
					if len(fs) > 0 {
						r.Report("tcp-pipeline-write-deadline", c01wCase{N: sc.n, Expired: sc.expired, Choices: x.Choices}, fs)
						found++
					}

					return found < 1
				})
			if st.Stopped {
				r.Note("write race n=%d expired=%d stopped by deadline after %d executions", sc.n, sc.expired, st.Executions)
			}
		}
	}
	r.Finish()
	os.Exit(0)
}
