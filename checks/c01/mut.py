#!/usr/bin/env python3
"""mut.py — deliberate-breakage helper of check C01.

Like bin/mutest, but the scratch worktree first gets checks/c01/proposed-fix-*.diff
(the unchanged tree has genuine C01 findings, which would make every mutation
look "caught"), then one textual edit.  /repo itself is never touched.

usage: mut.py <name> <repo-relative file> <old> <new> [quick|thorough]
env:   MUT_TESTS=1   also run the package's own tests on the mutated tree
       MUT_NOFIX=1   do not apply the proposed fixes first
Prints the diff hunk of the edit, CAUGHT/MISSED/ERROR and the violation keys.
"""
import difflib, os, shutil, subprocess, sys

name, file, old, new = sys.argv[1:5]
tier = sys.argv[5] if len(sys.argv) > 5 else "quick"
here = os.path.dirname(os.path.abspath(__file__))
verif = os.path.dirname(os.path.dirname(here))
wt = "/tmp/wt-c01-mut-%d" % os.getpid()
subprocess.run(["git", "-C", "/repo", "worktree", "add", "--detach", "-q", wt], check=True)
try:
    if not os.environ.get("MUT_NOFIX"):
        for fn in sorted(os.listdir(here)):
            if fn.startswith("proposed-fix-") and fn.endswith(".diff"):
                subprocess.run(["git", "-C", wt, "apply", os.path.join(here, fn)], check=True)
    p = os.path.join(wt, file)
    s = open(p).read()
    if s.count(old) != 1:
        print("MUT-ERROR %s: pattern occurs %d times in %s" % (name, s.count(old), file))
        sys.exit(2)
    t = s.replace(old, new)
    open(p, "w").write(t)
    hunk = "".join(difflib.unified_diff(s.splitlines(True), t.splitlines(True), "a/" + file, "b/" + file, n=2))
    print(hunk, end="")
    env = dict(os.environ, GOPROXY="off", GOSUMDB="off", GOTOOLCHAIN="local")
    env.pop("GOFLAGS", None)
    moddir = wt + "/internal/dnsserver" if file.startswith("internal/dnsserver/") else wt
    b = subprocess.run(["go1.26.8", "build", "./..."], cwd=moddir, env=env, capture_output=True, text=True)
    if b.returncode != 0:
        print("MUT-ERROR %s: does not compile\n%s" % (name, b.stderr[-800:]))
        sys.exit(2)
    tests = ""
    if os.environ.get("MUT_TESTS"):
        pkg = "./" + os.path.dirname(os.path.relpath(os.path.join(wt, file), moddir))
        tr = subprocess.run(["go1.26.8", "test", "-count=1", pkg], cwd=moddir, env=env, capture_output=True, text=True)
        tests = " repo-tests=%s" % ("pass" if tr.returncode == 0 else "FAIL")
        if tr.returncode != 0:
            fails = [l for l in tr.stdout.splitlines() if l.startswith("--- FAIL")]
            tests += "(%s)" % ",".join(f.split()[2] for f in fails[:4])
    r = subprocess.run([os.path.join(verif, "bin", "vcheck"), "C01", tier], env=dict(os.environ, VERIF_REPO=wt),
                       capture_output=True, text=True)
    keys = [l.strip() for l in r.stdout.splitlines() if l.strip().startswith("key=")]
    verdict = {0: "MISSED", 1: "CAUGHT"}.get(r.returncode, "ERROR(%d)" % r.returncode)
    if r.returncode == 1 and "VIOLATION property=" not in r.stdout:
        verdict = "ERROR(no VIOLATION line)"
    line = "%-8s C01 mutation=%s%s %s" % (verdict, name, tests, " ".join(keys))
    print(line)
    with open(os.path.join(verif, "docs", "mutation_log.txt"), "a") as lf:
        lf.write(line + "  | (on top of checks/c01/proposed-fix-*.diff) " + file + ": " + " ".join(old.split())[:80] + " => " + " ".join(new.split())[:80] + "\n")
    if r.returncode not in (0, 1):
        print(r.stdout[-2000:])
finally:
    subprocess.run(["git", "-C", "/repo", "worktree", "remove", "--force", wt])
    shutil.rmtree(wt, ignore_errors=True)
