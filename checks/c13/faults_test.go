//go:build verif

package c13

import (
	"context"
	"fmt"
	"net/http"
	"os"
	"path/filepath"
	"runtime/pprof"
	"sort"
	"strings"
	"syscall"
	"testing"
	"testing/synctest"
	"time"

	"github.com/AdguardTeam/AdGuardDNS/internal/dnsserver/zzverif/vrt"
	"github.com/AdguardTeam/AdGuardDNS/internal/filter"
	"github.com/AdguardTeam/AdGuardDNS/internal/filter/filterstorage"
)

// dev is one deviation of the environment from "200 with the next complete
// version": download position P of round R answers with fault kind K.
type dev struct {
	R int    `json:"round"`
	P string `json:"pos"`
	K string `json:"kind"`
}

// faultCase is one history of the real filter storage: an initial refresh
// that establishes version 0 of everything, then Rounds refreshes where round
// r offers version r everywhere, except for the listed deviations.
type faultCase struct {
	Rounds int   `json:"rounds"`
	Devs   []dev `json:"devs"`

	// RulesOnly selects the storage variant without blocked services and
	// safe search: a round is the rule-list index and the two rule lists.
	// (In the full variant a round context that ends early also fails the
	// service index, which makes the storage return before it installs the
	// rule lists, and hides what the rule-list loop did.)
	RulesOnly bool `json:"rules_only,omitempty"`
}

// hpCase is one history of the hashprefix filter: Kinds[i] is the answer kind
// of the single download of round i+1.
type hpCase struct {
	Kinds []string `json:"kinds"`
}

// roundGap is the virtual time between two refresh rounds; it exceeds the
// staleness plus every timeout of a round, so every round re-downloads.
const roundGap = time.Hour

var bubbleParams = storageParams{staleness: staleness, timeout: dlTimeout}

// scratchBase returns a private scratch directory for this process.  It is
// placed next to the shard file (/verif/.build/C13/u<k>) when the driver runs
// the check, else in t.TempDir().
func scratchBase(t *testing.T) (dir string) {
	root := scratchRoot(t)
	dir, err := os.MkdirTemp(root, "c13-scratch-")
	if err != nil {
		vrt.Fatalf("creating scratch dir: %v", err)
	}
	// renameio puts its temporary file into $TMPDIR when that is on the file
	// system of the cache directory and renames it across directories, else it
	// creates it next to the cache file.  Point TMPDIR at a directory that
	// does not exist: nothing goes to /tmp, and the renames stay inside one
	// directory (cross-directory renames take a file-system-wide kernel lock,
	// which serialises all check processes sharing the scratch file system;
	// both placements are exercised by the kill-point unit).
	if err = os.Setenv("TMPDIR", filepath.Join(dir, "no-such-tmp")); err != nil {
		vrt.Fatalf("setting TMPDIR: %v", err)
	}

	return dir
}

// scratchRoot picks the parent of the scratch directory: C13_SCRATCH if set;
// else /dev/shm when it is a writable directory (every history replaces ~20
// cache files through renameio, which fsyncs each of them: ~85 ms per history
// on the ext4 disk against ~1 ms on tmpfs; the property is about what the
// code writes, not about the medium); else the unit's build directory
// (/verif/.build/C13/u<k>); else t.TempDir().
func scratchRoot(t *testing.T) (root string) {
	if d := os.Getenv("C13_SCRATCH"); d != "" {
		return d
	}
	if fi, err := os.Stat("/dev/shm"); err == nil && fi.IsDir() && hasRoom("/dev/shm") {
		if probe, perr := os.MkdirTemp("/dev/shm", "c13-probe-"); perr == nil {
			_ = os.Remove(probe)

			return "/dev/shm"
		}
	}
	if out := os.Getenv("VERIF_OUT"); out != "" {
		return filepath.Dir(out)
	}

	return t.TempDir()
}

// hasRoom reports whether the file system of dir has free inodes and space
// for the scratch files of a check process (the shared tmpfs has been seen
// with all its inodes used up by leftovers of other runs).
func hasRoom(dir string) (ok bool) {
	var st syscall.Statfs_t
	if err := syscall.Statfs(dir, &st); err != nil {
		return false
	}

	return st.Ffree >= 20000 && st.Bavail*uint64(st.Bsize) >= 256<<20
}

func TestVerifC13Faults(t *testing.T) {
	r := vrt.Start("C13")
	if p := os.Getenv("C13_CPUPROF"); p != "" {
		pf, perr := os.Create(p)
		if perr == nil {
			_ = pprof.StartCPUProfile(pf)
			defer pprof.StopCPUProfile()
		}
	}
	maxDevs := vrt.Pick(r, 2, 3)
	rounds := 3
	hpRounds := vrt.Pick(r, 3, 4)
	r.Bound("rounds", rounds)
	r.Bound("max_deviations", maxDevs)
	r.Bound("download_positions_per_round", len(storagePositions))
	r.Bound("hashprefix_rounds", hpRounds)

	base := scratchBase(t)
	caseNo := 0
	caseDir := func() (dir string) {
		caseNo++
		dir = filepath.Join(base, fmt.Sprintf("c%d", caseNo))
		if err := os.Mkdir(dir, 0o700); err != nil {
			vrt.Fatalf("creating case dir: %v", err)
		}

		return dir
	}

	// All deviation options of one history, simplest first.
	var opts []dev
	for rd := 1; rd <= rounds; rd++ {
		for _, pos := range storagePositions {
			for _, k := range kindsFor(pos) {
				opts = append(opts, dev{R: rd, P: pos, K: k})
			}
		}
	}
	r.Bound("deviation_options", len(opts))
	// The core options: every history with one deviation uses all options;
	// histories with two deviations use the core options in the quick tier
	// and all options in the thorough tier; histories with three deviations
	// (thorough) use the core options.
	var core []dev
	for _, o := range opts {
		if coreKind(o.P, o.K) {
			core = append(core, o)
		}
	}
	r.Bound("deviation_options_core", len(core))

	vrt.Part(r, "storage",
		func(emit func(faultCase)) {
			sameSlot := func(a, b dev) bool { return a.R == b.R && a.P == b.P }
			emit(faultCase{Rounds: rounds})
			for i := range opts {
				emit(faultCase{Rounds: rounds, Devs: []dev{opts[i]}})
			}
			if maxDevs >= 2 {
				// Quick tier: pairs over the core options; thorough: all pairs.
				opts := opts
				if maxDevs == 2 && os.Getenv("C13_ALL_PAIRS") == "" {
					opts = core
				}
				for i := range opts {
					for j := i + 1; j < len(opts); j++ {
						if sameSlot(opts[i], opts[j]) {
							continue
						}
						emit(faultCase{Rounds: rounds, Devs: []dev{opts[i], opts[j]}})
					}
				}
			}
			if maxDevs >= 3 {
				opts := core
				for i := range opts {
					for j := i + 1; j < len(opts); j++ {
						if sameSlot(opts[i], opts[j]) {
							continue
						}
						for k := j + 1; k < len(opts); k++ {
							if sameSlot(opts[i], opts[k]) || sameSlot(opts[j], opts[k]) {
								continue
							}
							if vacuous([]dev{opts[i], opts[j], opts[k]}) {
								continue
							}
							emit(faultCase{Rounds: rounds, Devs: []dev{opts[i], opts[j], opts[k]}})
						}
					}
				}
			}
		},
		func(c faultCase) (fs []vrt.Finding) {
			dir := caseDir()
			defer os.RemoveAll(dir)
			synctest.Test(t, func(_ *testing.T) { fs = runStorageHistory(r, dir, c) })

			return fs
		})

	// The rules-only variant: deviations at the index and the two lists.  All
	// single deviations; pairs over the core options — in the quick tier only
	// the pairs that contain a cancelled round context.
	vrt.Part(r, "storage-rules-only",
		func(emit func(faultCase)) {
			rulePos := func(d dev) bool { return in(d.P, posIdx, posL1, posL2) }
			emit(faultCase{Rounds: rounds, RulesOnly: true})
			for _, o := range opts {
				if rulePos(o) {
					emit(faultCase{Rounds: rounds, RulesOnly: true, Devs: []dev{o}})
				}
			}
			for i := range core {
				for j := i + 1; j < len(core); j++ {
					a, b := core[i], core[j]
					if !rulePos(a) || !rulePos(b) || (a.R == b.R && a.P == b.P) {
						continue
					}
					if maxDevs == 2 && a.K != kCtxCancel && b.K != kCtxCancel {
						continue
					}
					emit(faultCase{Rounds: rounds, RulesOnly: true, Devs: []dev{a, b}})
				}
			}
		},
		func(c faultCase) (fs []vrt.Finding) {
			dir := caseDir()
			defer os.RemoveAll(dir)
			synctest.Test(t, func(_ *testing.T) { fs = runStorageHistory(r, dir, c) })

			return fs
		})

	hpKinds := append(append([]string{kOK}, fetchFaults...), kOverlongLine)
	vrt.Part(r, "hashprefix",
		func(emit func(hpCase)) {
			vrt.Sequences(len(hpKinds), hpRounds, hpRounds, func(seq []int) {
				c := hpCase{}
				for _, i := range seq {
					c.Kinds = append(c.Kinds, hpKinds[i])
				}
				emit(c)
			})
		},
		func(c hpCase) (fs []vrt.Finding) {
			dir := caseDir()
			defer os.RemoveAll(dir)
			synctest.Test(t, func(_ *testing.T) { fs = runHPHistory(r, dir, c) })

			return fs
		})

	r.Finish()
	_ = os.RemoveAll(base)
	pprof.StopCPUProfile()
	os.Exit(0)
}

// shadowed returns the positions of a round's plan at which a deviation can
// never be consumed because the unchanged code does not request them in that
// round: everything after a rule-list index that failed to load, list 2 when
// its index entry is unusable, the safe-search list after a service index
// that failed.  A history with a shadowed deviation executes exactly like the
// history without it, which is explored at the lower deviation count.
func shadowed(plan map[string]string) (pos []string) {
	idxKind := plan[posIdx]
	for _, p := range storagePositions {
		k, ok := plan[p]
		if !ok || k == "" {
			continue
		}
		switch {
		case p != posIdx && (isFetchFault(idxKind) || idxKind == kNotJSON):
			pos = append(pos, p)
		case p == posL2 && (idxURLUnusable(idxKind) || idxKeyUnusable(idxKind)):
			pos = append(pos, p)
		case p == posSS && (isFetchFault(plan[posSvc]) || plan[posSvc] == kNotJSON || svcIDUnusable(plan[posSvc])):
			pos = append(pos, p)
		}
	}

	return pos
}

// premiseBroken is set once the reduction premise was seen to fail.
var premiseBroken bool

// vacuous reports whether a history contains a shadowed deviation.
func vacuous(devs []dev) (ok bool) {
	plans := map[int]map[string]string{}
	for _, d := range devs {
		if plans[d.R] == nil {
			plans[d.R] = map[string]string{}
		}
		plans[d.R][d.P] = d.K
	}
	for _, plan := range plans {
		if len(shadowed(plan)) > 0 {
			return true
		}
	}

	return false
}

// findings collects at most one finding per key for one history.
type findings struct {
	seen map[string]bool
	list []vrt.Finding
}

func (f *findings) add(key, format string, args ...any) {
	if f.seen == nil {
		f.seen = map[string]bool{}
	}
	if f.seen[key] {
		return
	}
	f.seen[key] = true
	f.list = append(f.list, vrt.Finding{Key: key, Detail: fmt.Sprintf(format, args...)})
}

func in(s string, set ...string) (ok bool) {
	for _, x := range set {
		if s == x {
			return true
		}
	}

	return false
}

// runStorageHistory executes one history on a fresh real storage inside a
// synctest bubble and applies the oracle after every round.
func runStorageHistory(r *vrt.Run, dir string, c faultCase) (out []vrt.Finding) {
	ctx := context.Background()
	fs := &findings{}
	log := &strings.Builder{}

	w := newWorld()
	tr := w.transport()
	http.DefaultTransport = tr
	defer func() {
		tr.CloseIdleConnections()
		w.wg.Wait()
	}()

	plans := map[int]map[string]string{}
	for _, d := range c.Devs {
		if plans[d.R] == nil {
			plans[d.R] = map[string]string{}
		}
		plans[d.R][d.P] = d.K
	}

	params := bubbleParams
	params.rulesOnly = c.RulesOnly
	for _, d := range c.Devs {
		if d.K == kOverlongLine {
			params.sizeFactor = overlongSizeFactor
			w.sizeFactor = overlongSizeFactor
		}
	}
	positions, lists := storagePositions, storageLists
	if c.RulesOnly {
		positions, lists = []string{posIdx, posL1, posL2}, []string{lstL1, lstL2}
	}
	s, err := newStorage(dir, params)
	if err != nil {
		vrt.Fatalf("building storage: %v", err)
	}

	versions := c.Rounds + 1
	w.setRound(0, nil)
	if err = s.RefreshInitial(ctx); err != nil {
		vrt.Fatalf("initial refresh with a healthy network failed: %v", err)
	}
	prevObs, nq := probeStorage(ctx, s, 1)
	r.Trans(1 + len(positions) + nq)
	prevFiles, _, err := readCacheDir(dir)
	if err != nil {
		vrt.Fatalf("reading cache dir: %v", err)
	}
	// The establishing round is judged like any other round without
	// deviations: before it every list is absent and there are no cache files.
	absent := map[string]string{}
	for _, lst := range storageLists {
		absent[lst] = stAbsent
	}
	checkStorageRound(fs, 0, nil, absent, prevObs, map[string]string{}, prevFiles)
	if foreign, nf := foreignContent(ctx, s, 1); foreign != "" {
		r.Trans(nf)
		fs.add("serve/list-serves-another-lists-content", "establishing round: %s", foreign)
	}
	established := true
	for _, lst := range lists {
		established = established && prevObs[lst] == "v0"
	}
	for _, pos := range positions {
		established = established && prevFiles[cacheFileOf(pos)] == content(pos, 0)
	}
	if !established {
		if len(fs.list) == 0 {
			// Vacuity guard: nothing judged wrong, yet version 0 is not there.
			vrt.Fatalf("establishing round: serve[%s], cache files %v, no finding", fmtObs(prevObs), len(prevFiles))
		}
		r.Class("establishing-round-broken")

		return fs.list
	}

	for round := 1; round <= c.Rounds; round++ {
		time.Sleep(roundGap)
		plan := plans[round]
		w.setRound(round, plan)
		rctx, cancel := w.roundContext(ctx, plan)
		refErr := s.Refresh(rctx)
		cancel()

		// No version above the one offered in this round exists yet.
		obs, n := probeStorage(ctx, s, round+1)
		files, temps, rerr := readCacheDir(dir)
		if rerr != nil {
			vrt.Fatalf("reading cache dir: %v", rerr)
		}
		w.mu.Lock()
		nreq := 0
		var reqs []string
		for _, pos := range storagePositions {
			if w.requested[pos] > 0 {
				nreq += w.requested[pos]
				reqs = append(reqs, pos)
			}
		}
		for pos := range w.requested {
			if !in(pos, storagePositions...) {
				reqs = append(reqs, "?"+pos)
			}
		}
		for _, pos := range shadowed(plan) {
			// Premise of the reduction used at 3 deviations.
			if w.requested[pos] > 0 && !premiseBroken {
				premiseBroken = true
				r.NotExhaustive(fmt.Sprintf("reduction premise broken: position %s was requested in a round with plan %v", pos, plan))
			} else if w.requested[pos] == 0 {
				r.Count("shadowed-deviation-confirmed-unrequested", 1)
			}
		}
		w.mu.Unlock()
		r.Trans(1 + nreq + n)

		checkStorageRound(fs, round, plan, prevObs, obs, prevFiles, files)
		foreign, nf := foreignContent(ctx, s, round+1)
		r.Trans(nf)
		if foreign != "" {
			fs.add("serve/list-serves-another-lists-content", "round %d plan %v: %s", round, plan, foreign)
		}

		// Outcome class and observation log.
		adv, abs := 0, 0
		for _, lst := range storageLists {
			if obs[lst] == fmt.Sprintf("v%d", round) {
				adv++
			}
			if obs[lst] == stAbsent {
				abs++
			}
		}
		variant := "round"
		if c.RulesOnly {
			variant = "rules-only-round"
		}
		r.Class(fmt.Sprintf("%s:advanced=%d,absent=%d,refresh-error=%t", variant, adv, abs, refErr != nil))
		if len(temps) > 0 {
			r.Class("round:temp-files-left")
		}
		fileVers := make([]string, 0, len(storagePositions))
		for _, pos := range storagePositions {
			fileVers = append(fileVers, pos+"="+fileVersion(pos, files[cacheFileOf(pos)], versions))
		}
		fmt.Fprintf(log, "%s r%d plan=%v req=%v err=%t serve[%s] disk[%s]\n",
			variant, round, fmtObs(plan), reqs, refErr != nil, fmtObs(obs), strings.Join(fileVers, " "))

		prevObs, prevFiles = obs, files
	}

	// Restart on the final cache directory with the network down.
	w.mu.Lock()
	w.down = true
	w.mu.Unlock()
	s2, err := newStorage(dir, params)
	if err != nil {
		vrt.Fatalf("building restart storage: %v", err)
	}
	rerr := s2.RefreshInitial(ctx)
	r.Trans(1)
	if rerr != nil {
		brokenIndex := false
		for _, pos := range []string{posIdx, posSvc} {
			fv := fileVersion(pos, prevFiles[cacheFileOf(pos)], versions)
			if fv == "notjson" {
				brokenIndex = true
			}
			if i := strings.IndexByte(fv, '('); pos == posSvc && i >= 0 && svcIDUnusable(strings.TrimSuffix(fv[i+1:], ")")) {
				brokenIndex = true
			}
		}
		if brokenIndex {
			// The statement lets the cache hold "the new complete version";
			// when the server delivered (status 200, consistent length) an
			// index that is syntactically broken, or a service index with an
			// invalid entry, that is exactly what the cache holds, and the
			// storage cannot start from it.  Recorded as an outcome class and
			// described in NOTES.md, not judged: the statement is silent on
			// complete-but-invalid content.
			r.Class("restart:fails-on-cached-invalid-index")
			fmt.Fprintf(log, "restart error (invalid index cached)\n")
		} else {
			fs.add("restart/cache-unusable", "after history %+v a restart with the network down fails: %v", c.Devs, rerr)
		}
	} else {
		obs, n := probeStorage(ctx, s2, versions)
		r.Trans(n)
		for _, lst := range storageLists {
			if st := obs[lst]; !isComplete(st) && st != stAbsent {
				fs.add("restart/incomplete-or-mixed-version", "after history %+v a restarted storage serves list %s as %s", c.Devs, lst, st)
			}
		}
		if foreign, nf := foreignContent(ctx, s2, versions); foreign != "" {
			r.Trans(nf)
			fs.add("restart/list-serves-another-lists-content", "after history %+v a restarted storage: %s", c.Devs, foreign)
		}
		r.Class("restart:ok")
		fmt.Fprintf(log, "restart serve[%s]\n", fmtObs(obs))
	}

	r.State(log.String())

	return fs.list
}

// fileVersion names the content of a cache file: "v<n>", "notjson", the
// invalid-entry kind, "missing", or "other".
func fileVersion(pos, data string, versions int) (name string) {
	if data == "" {
		return "missing"
	}
	for v := range versions {
		if data == content(pos, v) {
			return fmt.Sprintf("v%d", v)
		}
		for _, k := range kindsFor(pos) {
			if isFetchFault(k) {
				continue
			}
			if data == delivered(pos, v, k) {
				if k == kNotJSON {
					return "notjson"
				}

				return fmt.Sprintf("v%d(%s)", v, k)
			}
		}
	}

	return "other"
}

// checkStorageRound is the oracle of one round.  It restates the property:
// a list whose download failed keeps its previous complete version; every
// other list serves its previous or the offered complete version; the valid
// entries of a partially invalid index are applied; every cache file holds
// exactly its previous content or the complete content delivered this round.
func checkStorageRound(
	fs *findings,
	round int,
	plan map[string]string,
	prevObs, obs map[string]string,
	prevFiles, files map[string]string,
) {
	offered := fmt.Sprintf("v%d", round)
	idxKind, svcKind := plan[posIdx], plan[posSvc]
	idxEntryFault := idxPartlyInvalid(idxKind)

	for _, lst := range storageLists {
		prev, cur := prevObs[lst], obs[lst]
		if !isComplete(cur) && cur != stAbsent {
			fs.add("serve/incomplete-or-mixed-version",
				"round %d plan %v: list %s serves %s (previous %s, offered %s)", round, plan, lst, cur, prev, offered)

			continue
		}

		var allowed []string
		category := "other"
		switch lst {
		case lstL1, lstL2:
			own := plan[lst]
			switch {
			case isFetchFault(idxKind), idxKind == kNotJSON:
				allowed, category = []string{prev}, "failed"
			case lst == lstL2 && idxKeyUnusable(idxKind):
				// The entry no longer names any list: indifferent between
				// "keeps previous" and "no longer in the index" (the list
				// is then not even requested, whatever its own deviation).
				allowed, category = []string{prev, stAbsent}, "entry"
			case lst == lstL2 && idxURLUnusable(idxKind):
				// The entry still names list 2, so list 2 is the affected list.
				allowed, category = []string{prev}, "entry"
			case isFetchFault(own):
				allowed, category = []string{prev}, "failed"
			case lst == lstL1 && idxEntryFault && len(plan) == 1:
				allowed, category = []string{offered}, "valid-entry"
			case lst == lstL2 && idxKind == kDupBad && len(plan) == 1:
				// An unusable entry next to a VALID entry for the same list:
				// the valid entry of a partially invalid index is applied.
				allowed, category = []string{offered}, "valid-entry"
			default:
				allowed = []string{prev, offered}
			}
		case lstS1, lstS2:
			switch {
			case isFetchFault(svcKind), svcKind == kNotJSON:
				allowed, category = []string{prev}, "failed"
			case (svcIDUnusable(svcKind) || svcRulesMissing(svcKind)) && lst == lstS2:
				// The statement speaks of partially invalid *indexes* of rule
				// lists; for the service list it is silent: indifferent.  (The
				// code rejects the whole index for an unusable id and installs
				// a service without rules as an empty one.)
				allowed = []string{prev, stAbsent}
			default:
				allowed = []string{prev, offered}
			}
		case lstSS:
			if isFetchFault(plan[posSS]) {
				allowed, category = []string{prev}, "failed"
			} else {
				allowed = []string{prev, offered}
			}
		}
		if in(cur, allowed...) {
			continue
		}

		key := "serve/neither-previous-nor-offered"
		switch {
		case category == "failed" && cur == stAbsent:
			key = "serve/failed-download-drops-list"
		case category == "failed":
			key = "serve/failed-download-changes-served-version"
		case category == "entry" && cur == stAbsent:
			key = "index/invalid-entry-drops-its-list"
		case category == "entry":
			key = "index/invalid-entry-changes-its-list"
		case category == "valid-entry":
			key = "index/valid-entries-not-applied"
		}
		fs.add(key, "round %d plan %v: list %s serves %s, allowed %v (previous %s, offered %s)",
			round, plan, lst, cur, allowed, prev, offered)
	}

	for _, pos := range storagePositions {
		name := cacheFileOf(pos)
		before, after := prevFiles[name], files[name]
		if after == before {
			continue
		}
		kind := plan[pos]
		if kind == "" {
			kind = kOK
		}
		d := delivered(pos, round, kind)
		if d != "" && after == d {
			continue
		}
		if d == "" {
			fs.add("disk/failed-download-changed-cache-file",
				"round %d plan %v: cache file %s was %s, is %s after a failed download (%s)",
				round, plan, name, short(before), short(after), kind)
		} else {
			fs.add("disk/cache-file-neither-previous-nor-offered",
				"round %d plan %v: cache file %s is %s; previous %s, delivered %s",
				round, plan, name, short(after), short(before), short(d))
		}
	}
}

// foreignContent probes every rule list and every service in isolation (a
// client configuration that enables only that one) with the marker hosts of
// its sibling from the same index.  A list must never serve the content of
// another list, whatever happened to the index; with both siblings enabled
// the sibling itself would mask it.  It returns a description of the first
// foreign match, or "".
func foreignContent(ctx context.Context, s *filterstorage.Default, versions int) (desc string, nq int) {
	type iso struct {
		lst, sibling string
		conf         *filter.ConfigClient
	}
	rl := func(id filter.ID) *filter.ConfigClient {
		return &filter.ConfigClient{
			Custom:       &filter.ConfigCustom{},
			Parental:     &filter.ConfigParental{},
			RuleList:     &filter.ConfigRuleList{IDs: []filter.ID{id}, Enabled: true},
			SafeBrowsing: &filter.ConfigSafeBrowsing{},
		}
	}
	svc := func(id filter.BlockedServiceID) *filter.ConfigClient {
		return &filter.ConfigClient{
			Custom:       &filter.ConfigCustom{},
			Parental:     &filter.ConfigParental{BlockedServices: []filter.BlockedServiceID{id}, Enabled: true},
			RuleList:     &filter.ConfigRuleList{},
			SafeBrowsing: &filter.ConfigSafeBrowsing{},
		}
	}
	for _, i := range []iso{
		{lst: lstL1, sibling: lstL2, conf: rl(idL1)},
		{lst: lstL2, sibling: lstL1, conf: rl(idL2)},
		{lst: lstS1, sibling: lstS2, conf: svc(idS1)},
		{lst: lstS2, sibling: lstS1, conf: svc(idS2)},
	} {
		f := s.ForConfig(ctx, i.conf)
		for v := range versions {
			probeSeq++
			host := fmt.Sprintf("n%d.%s", probeSeq, markerHost(i.sibling, v, "first"))
			nq++
			res, err := f.FilterRequest(ctx, newReq(host))
			if err == nil && res == nil {
				continue
			}
			if desc == "" {
				if err != nil {
					desc = fmt.Sprintf("list %s alone: filtering %s fails: %v", i.lst, host, err)
				} else {
					id, rule := res.MatchedRule()
					desc = fmt.Sprintf("list %s alone filters %s, a host of list %s (matched by %s %s)", i.lst, host, i.sibling, id, rule)
				}
			}
		}
	}

	return desc, nq
}

// runHPHistory executes one history of the real hashprefix filter.
func runHPHistory(r *vrt.Run, dir string, c hpCase) (out []vrt.Finding) {
	ctx := context.Background()
	fs := &findings{}
	log := &strings.Builder{}

	w := newWorld()
	tr := w.transport()
	http.DefaultTransport = tr
	defer func() {
		tr.CloseIdleConnections()
		w.wg.Wait()
	}()

	params := bubbleParams
	for _, k := range c.Kinds {
		if k == kOverlongLine {
			params.sizeFactor = overlongSizeFactor
			w.sizeFactor = overlongSizeFactor
		}
	}
	f, err := newHashprefix(dir, params)
	if err != nil {
		vrt.Fatalf("building hashprefix filter: %v", err)
	}
	versions := len(c.Kinds) + 1
	w.setRound(0, nil)
	if err = f.RefreshInitial(ctx); err != nil {
		vrt.Fatalf("initial hashprefix refresh with a healthy network failed: %v", err)
	}
	prev, nq := servedState(ctx, hpProbe{f}, lstHP, versions)
	r.Trans(2 + nq)
	if prev != "v0" {
		vrt.Fatalf("after the initial refresh the hashprefix filter serves %s", prev)
	}
	name := cacheFileOf(posHP)
	filesPrev, _, _ := readCacheDir(dir)
	prevFile := filesPrev[name]
	if prevFile != content(posHP, 0) {
		vrt.Fatalf("after the initial refresh the hashprefix cache file is %s", short(prevFile))
	}

	for i, kind := range c.Kinds {
		round := i + 1
		time.Sleep(roundGap)
		plan := map[string]string{}
		if kind != kOK {
			plan[posHP] = kind
		}
		w.setRound(round, plan)
		rctx, cancel := w.roundContext(ctx, plan)
		refErr := f.Refresh(rctx)
		cancel()
		cur, n := servedState(ctx, hpProbe{f}, lstHP, versions)
		r.Trans(2 + n)
		files, _, rerr := readCacheDir(dir)
		if rerr != nil {
			vrt.Fatalf("reading cache dir: %v", rerr)
		}
		curFile := files[name]
		offered := fmt.Sprintf("v%d", round)

		switch {
		case !isComplete(cur) && cur != stAbsent:
			fs.add("hashprefix/incomplete-or-mixed-version", "round %d kinds %v: serves %s", round, c.Kinds, cur)
		case (isFetchFault(kind) || refErr != nil) && cur != prev:
			// A failed download, or a refresh that reports failure for any
			// other reason (a body the consumer cannot digest).
			fs.add("hashprefix/failed-download-changes-served-version",
				"round %d kinds %v: refresh error %v, serves %s, previous %s", round, c.Kinds, refErr, cur, prev)
		case !isFetchFault(kind) && !in(cur, prev, offered):
			fs.add("hashprefix/neither-previous-nor-offered",
				"round %d kinds %v: serves %s, previous %s", round, c.Kinds, cur, prev)
		}
		switch {
		case curFile == prevFile:
			// Unchanged.
		case !isFetchFault(kind) && curFile == delivered(posHP, round, kind):
			// Replaced by the complete body delivered in this round.
		case isFetchFault(kind):
			fs.add("disk/failed-download-changed-cache-file",
				"hashprefix round %d kinds %v: cache file was %s, is %s", round, c.Kinds, short(prevFile), short(curFile))
		default:
			fs.add("disk/cache-file-neither-previous-nor-offered",
				"hashprefix round %d kinds %v: cache file is %s", round, c.Kinds, short(curFile))
		}

		r.Class(fmt.Sprintf("hp:%s,advanced=%t,refresh-error=%t", kindClass(kind), cur == offered, refErr != nil))
		fmt.Fprintf(log, "r%d %s err=%t serve=%s disk=%s\n", round, kind, refErr != nil, cur, fileVersion(posHP, curFile, versions))
		prev, prevFile = cur, curFile
	}

	// Restart with the network down.
	w.mu.Lock()
	w.down = true
	w.mu.Unlock()
	f2, err := newHashprefix(dir, params)
	if err != nil {
		vrt.Fatalf("building restart hashprefix filter: %v", err)
	}
	if rerr := f2.RefreshInitial(ctx); rerr != nil && strings.HasSuffix(fileVersion(posHP, prevFile, versions), "("+kOverlongLine+")") {
		// As with a broken JSON index: the cache holds the complete body as
		// delivered, which the consumer cannot digest.  Outcome class, not
		// judged.
		r.Class("restart:fails-on-cached-undigestible-list")
		fmt.Fprintf(log, "restart error (undigestible list cached)\n")
	} else if rerr != nil {
		fs.add("restart/cache-unusable", "hashprefix kinds %v: restart with the network down fails: %v", c.Kinds, rerr)
	} else if st, _ := servedState(ctx, hpProbe{f2}, lstHP, versions); !isComplete(st) {
		fs.add("restart/incomplete-or-mixed-version", "hashprefix kinds %v: restarted filter serves %s", c.Kinds, st)
	} else {
		fmt.Fprintf(log, "restart serve=%s\n", st)
	}
	r.Trans(1)
	r.State(log.String())

	return fs.list
}

func kindClass(kind string) (c string) {
	if kind == kOK {
		return "ok"
	}

	return "fault"
}

// hpProbe adapts a hashprefix filter to filter.Interface for servedState.
type hpProbe struct {
	f interface {
		FilterRequest(ctx context.Context, req *filter.Request) (r filter.Result, err error)
	}
}

func (p hpProbe) FilterRequest(ctx context.Context, req *filter.Request) (filter.Result, error) {
	return p.f.FilterRequest(ctx, req)
}

func (p hpProbe) FilterResponse(_ context.Context, _ *filter.Response) (filter.Result, error) {
	return nil, nil
}

var _ = sort.Strings
