//go:build verif

// Package c13 holds the C13 check: failed or interrupted filter updates never
// weaken or corrupt filtering.  This file is the closed world shared by the
// fault-sequence unit and the kill-point unit: versioned list contents, a
// scripted "internet" (a real net/http.Transport whose connections are
// net.Pipe ends served by scripted raw HTTP/1.1 byte streams), the real
// filterstorage.Default / hashprefix.Filter builders and the version probe.
package c13

import (
	"bufio"
	"bytes"
	"compress/gzip"
	"context"
	"encoding/json"
	"fmt"
	"io"
	"net"
	"net/http"
	"net/netip"
	"net/url"
	"os"
	"path/filepath"
	"sort"
	"strings"
	"sync"
	"syscall"
	"time"

	"github.com/AdguardTeam/AdGuardDNS/internal/agdcache"
	"github.com/AdguardTeam/AdGuardDNS/internal/agdtime"
	"github.com/AdguardTeam/AdGuardDNS/internal/dnsmsg"
	"github.com/AdguardTeam/AdGuardDNS/internal/filter"
	"github.com/AdguardTeam/AdGuardDNS/internal/filter/filterstorage"
	"github.com/AdguardTeam/AdGuardDNS/internal/filter/hashprefix"
	"github.com/AdguardTeam/golibs/logutil/slogutil"
	"github.com/c2h5oh/datasize"
	"github.com/miekg/dns"
)

// Download positions of one storage refresh round, in the order the storage
// requests them, plus the separate hashprefix download.
const (
	posIdx = "idx" // rule-list index (filters.json)
	posL1  = "l1"  // rule list 1
	posL2  = "l2"  // rule list 2
	posSvc = "svc" // blocked-service index (services.json)
	posSS  = "ss"  // general safe-search rule list
	posHP  = "hp"  // hashprefix (adult blocking) host list
)

// storagePositions are the downloads of one storage refresh round.
var storagePositions = []string{posIdx, posL1, posL2, posSvc, posSS}

// Logical lists whose served version is probed.
const (
	lstL1 = "l1"
	lstL2 = "l2"
	lstS1 = "s1" // blocked service 1 (entry of the service index)
	lstS2 = "s2" // blocked service 2
	lstSS = "ss"
	lstHP = "hp"
)

var storageLists = []string{lstL1, lstL2, lstS1, lstS2, lstSS}

const (
	// The two rule lists have IDs that differ only in letter case (both are
	// valid, distinct filter IDs): anything derived from an ID by a
	// case-insensitive mapping (file names, cache names) makes them collide.
	// "C13_List" sorts before "c13_list", so list 1 is first in the index.
	idL1 filter.ID = "C13_List"
	idL2 filter.ID = "c13_list"

	// idExtra is the id of the third index entry of kExtra; it sorts first.
	idExtra = "A13_Extra_List"

	idS1 filter.BlockedServiceID = "c13_svc_1"
	idS2 filter.BlockedServiceID = "c13_svc_2"

	domain = ".c13.test"

	maxListSize  = 4 * datasize.KB
	maxIndexSize = 4 * datasize.KB
	maxSvcSize   = 8 * datasize.KB

	dlTimeout = 10 * time.Second
	staleness = 1 * time.Minute

)

// fillerLines is the number of rules between the first and the last marker
// rule of every list version.  It is set once per process, before any content
// is built.
var fillerLines = 8

// Fault kinds.  The first group applies to every download; the second group
// only to indexes.
const (
	kOK = "ok"

	kDial        = "dial"         // connection refused
	kTimeout     = "timeout"      // request read, no answer until the client gives up
	kTimeoutBody = "timeout-body" // headers and half of the body, then silence
	k404         = "404"
	k500         = "500"
	kEmpty       = "empty"   // 200, Content-Length: 0
	kOversize    = "oversize" // 200, complete offered version followed by padding beyond the size limit
	kCut         = "cut"      // 200, Content-Length of the full body, connection closed after half of it
	kChunked     = "chunked"  // 200, chunked, connection closed inside the second chunk

	// Oversized bodies without a Content-Length: a complete, properly
	// terminated chunked stream that is longer than the size limit.
	// Empty bodies whose length is not known from the headers (the response
	// has ContentLength -1), three framings.
	kEmptyChunked = "empty-chunked" // 200, Transfer-Encoding: chunked, only the terminating zero chunk
	kEmptyClose   = "empty-close"   // 200, no Content-Length, Connection: close, headers then end of stream
	kEmptyGzip    = "empty-gzip"    // 200, Content-Encoding: gzip, a valid gzip member of zero bytes (net/http gunzips transparently)

	// The context of the whole refresh round (the one the caller passes to
	// Refresh, not the per-download HTTP time-out) ends while this download is
	// being requested: the harness cancels it, or its deadline expires, and
	// the fetch fails with the context's error.
	kCtxCancel   = "ctx-cancel"
	kCtxDeadline = "ctx-deadline"

	// kOverlongLine is a well-formed 200 answer with a correct Content-Length
	// and a body under the size limit whose *content* may make the consumer
	// fail part-way: the first half of the lines of the offered version, one
	// line of 70 000 octets that the parser of the content ignores (a comment
	// for the lists, white space for the JSON indexes), the remaining lines.
	// bufio.Scanner based consumers stop at it with ErrTooLong.  Histories
	// that contain it run with all size limits multiplied by
	// overlongSizeFactor.
	kOverlongLine = "overlong-line"

	kOversizeChunked    = "oversize-chunked"     // the complete offered version, then padding beyond the limit
	kOversizeChunkedCut = "oversize-chunked-cut" // padding after the first marker, so that the limit falls inside a later rule of the offered version

	kNotJSON  = "notjson"  // 200, first half of the offered index (syntactically broken JSON), consistent Content-Length
	kBadKey   = "badkey"   // rule-list index: the entry of list 2 has an invalid filterKey
	kEmptyURL = "emptyurl" // rule-list index: the entry of list 2 has an empty downloadUrl
	kBadURL   = "badurl"   // rule-list index: the entry of list 2 has an unparsable downloadUrl
	kDupBad   = "dupbad"   // rule-list index: an entry with the id of list 2 and an EMPTY url, followed by the valid entry of list 2
	kDupID    = "dupid"    // rule-list index: a second entry with the id of list 2 and another URL
	kBadSvcID = "badsvcid" // service index: the entry of service 2 has an invalid id

	// Further shapes of the entry of list 2 in the rule-list index.  A JSON
	// object that omits a key, or sets it to null, is not the same input as
	// one with an empty string for code that decodes into reused memory.
	kNoURL   = "nourl"   // no downloadUrl key at all
	kNullURL = "nullurl" // "downloadUrl": null
	kNoKey   = "nokey"   // no filterKey key at all
	kNullKey = "nullkey" // "filterKey": null

	// kSwap is a fully valid index that lists list 2 before list 1.  It must
	// behave like kOK.  "swap+<k>" combines the order with an entry shape.
	kSwap      = "swap"
	swapPrefix = "swap+"

	// kExtra is a valid index with a third entry (id idExtra, sorts first)
	// whose download answers 404; the round after it the entry is gone again.
	kExtra = "extra"

	// Further shapes of the entry of service 2 in the blocked-service index.
	kSvcNoID      = "svcnoid"      // no id key
	kSvcNullID    = "svcnullid"    // "id": null
	kSvcNoRules   = "svcnorules"   // no rules key
	kSvcNullRules = "svcnullrules" // "rules": null
)

// idxEntryShapes are the shapes of the entry of list 2 that make it unusable.
var idxEntryShapes = []string{kBadKey, kEmptyURL, kBadURL, kNoURL, kNullURL, kNoKey, kNullKey}

// svcEntryShapes are the deviating shapes of the entry of service 2.
var svcEntryShapes = []string{kBadSvcID, kSvcNoID, kSvcNullID, kSvcNoRules, kSvcNullRules}

// splitKind splits an index kind into the order of the entries and the shape
// of the second list's / service's entry.
func splitKind(kind string) (swapped bool, shape string) {
	if kind == kSwap {
		return true, ""
	}
	if rest, ok := strings.CutPrefix(kind, swapPrefix); ok {
		return true, rest
	}

	return false, kind
}

// idxURLUnusable reports whether the rule-list index kind leaves the entry of
// list 2 with a valid id but without a usable URL: list 2 is the affected
// list and must keep its previous version.
func idxURLUnusable(kind string) (ok bool) {
	_, shape := splitKind(kind)

	return shape == kEmptyURL || shape == kBadURL || shape == kNoURL || shape == kNullURL
}

// idxKeyUnusable reports whether the rule-list index kind leaves the entry of
// list 2 without a valid id: the entry names no list.
func idxKeyUnusable(kind string) (ok bool) {
	_, shape := splitKind(kind)

	return shape == kBadKey || shape == kNoKey || shape == kNullKey
}

// idxPartlyInvalid reports whether the rule-list index kind is a complete
// JSON index with exactly one unusable (or duplicated) entry.
func idxPartlyInvalid(kind string) (ok bool) {
	return idxURLUnusable(kind) || idxKeyUnusable(kind) || kind == kDupID
}

// svcIDUnusable reports whether the service index kind has an entry without a
// valid id (the code then rejects the whole service index).
func svcIDUnusable(kind string) (ok bool) {
	_, shape := splitKind(kind)

	return shape == kBadSvcID || shape == kSvcNoID || shape == kSvcNullID
}

// svcRulesMissing reports whether the entry of service 2 carries no rules.
func svcRulesMissing(kind string) (ok bool) {
	_, shape := splitKind(kind)

	return shape == kSvcNoRules || shape == kSvcNullRules
}

// isIndexShapeKind reports whether kind is a complete 200 answer carrying a
// well-formed JSON index of some shape (as opposed to a fetch fault or
// kNotJSON).
func isIndexShapeKind(pos, kind string) (ok bool) {
	swapped, shape := splitKind(kind)
	switch pos {
	case posIdx:
		return kind == kDupID || kind == kDupBad || kind == kExtra || (swapped && shape == "") || in2(shape, idxEntryShapes)
	case posSvc:
		return (swapped && shape == "") || in2(shape, svcEntryShapes)
	default:
		return false
	}
}

func in2(s string, set []string) (ok bool) {
	for _, x := range set {
		if s == x {
			return true
		}
	}

	return false
}

// fetchFaults are the kinds after which no complete body was delivered.
var fetchFaults = []string{kDial, kTimeout, kTimeoutBody, k404, k500, kEmpty, kOversize, kCut, kChunked,
	kOversizeChunked, kOversizeChunkedCut, kEmptyChunked, kEmptyClose, kEmptyGzip, kCtxCancel, kCtxDeadline}

const (
	overlongLineLen    = 70000
	overlongSizeFactor = 24
)

// roundDeadline is the time-out of the round context in rounds that contain
// a kCtxDeadline deviation; it is shorter than the per-download time-out, so
// the round context ends first.
const roundDeadline = dlTimeout / 2

// roundContext returns the context to pass to the refresh of a round with
// the given plan and registers its cancel function with the world.  The
// caller must call cancel after the refresh.
func (w *world) roundContext(parent context.Context, plan map[string]string) (ctx context.Context, cancel context.CancelFunc) {
	ctx, cancel = context.WithCancel(parent)
	for _, k := range plan {
		if k == kCtxDeadline {
			cancel()
			ctx, cancel = context.WithTimeout(parent, roundDeadline)

			break
		}
	}
	w.mu.Lock()
	w.cancelRound = cancel
	w.mu.Unlock()

	return ctx, cancel
}

// kindsFor returns the deviation kinds applicable to a download position.
func kindsFor(pos string) (kinds []string) {
	kinds = append(kinds, fetchFaults...)
	kinds = append(kinds, kOverlongLine)
	switch pos {
	case posIdx:
		kinds = append(kinds, kNotJSON, kBadKey, kEmptyURL, kBadURL, kDupID, kDupBad,
			kNoURL, kSwap, swapPrefix+kNoURL, kExtra,
			kNullURL, kNoKey, kNullKey, swapPrefix+kNullURL, swapPrefix+kNoKey, swapPrefix+kNullKey)
	case posSvc:
		kinds = append(kinds, kNotJSON, kBadSvcID,
			kSwap, kSvcNoID, kSvcNullID, swapPrefix+kSvcNoID, kSvcNoRules, kSvcNullRules, swapPrefix+kSvcNoRules)
	}

	return kinds
}

// coreKind reports whether a deviation kind takes part in the histories with
// three deviations (thorough tier).  The near-duplicates of a shape (null
// instead of a missing key, the swapped variants other than swap+nourl, the
// service-index shapes added later) are explored with up to two deviations.
func coreKind(pos, kind string) (ok bool) {
	if in2(kind, []string{kOversizeChunkedCut, kEmptyChunked, kEmptyClose, kEmptyGzip, kCtxDeadline}) {
		// Near-duplicates of kOversizeChunked and kEmpty.
		return false
	}
	if kind == kOverlongLine {
		return false
	}
	if isFetchFault(kind) || kind == kNotJSON {
		return true
	}
	switch pos {
	case posIdx:
		return in2(kind, []string{kBadKey, kEmptyURL, kBadURL, kDupID, kDupBad, kNoURL, swapPrefix + kNoURL, kExtra})
	case posSvc:
		return kind == kBadSvcID
	default:
		return false
	}
}

func isFetchFault(kind string) (ok bool) {
	for _, k := range fetchFaults {
		if k == kind {
			return true
		}
	}

	return false
}

// markerHost returns the marker host of one end of one version of a list.
func markerHost(lst string, v int, end string) (host string) {
	return fmt.Sprintf("%s-v%d-%s.test", lst, v, end)
}

// ruleLines returns the blocking rules of version v of list lst: the first
// marker, filler rules, the last marker.
func ruleLines(lst string, v int) (lines []string) {
	lines = append(lines, "||"+markerHost(lst, v, "first")+"^")
	for i := range fillerLines {
		lines = append(lines, fmt.Sprintf("||%s-v%d-fill%02d.test^", lst, v, i))
	}
	lines = append(lines, "||"+markerHost(lst, v, "last")+"^")

	return lines
}

// contentCache memoises content and delivered bodies.
var (
	contentMu    sync.Mutex
	contentCache = map[string]string{}
)

// content returns the complete body of version v served at position pos.
func content(pos string, v int) (body string) {
	key := fmt.Sprintf("%s/%d", pos, v)
	contentMu.Lock()
	body, ok := contentCache[key]
	contentMu.Unlock()
	if ok {
		return body
	}
	body = buildContent(pos, v)
	contentMu.Lock()
	contentCache[key] = body
	contentMu.Unlock()

	return body
}

func buildContent(pos string, v int) (body string) {
	switch pos {
	case posL1, posL2:
		return fmt.Sprintf("! c13 %s version %d\n", pos, v) + strings.Join(ruleLines(pos, v), "\n") + "\n"
	case posSS:
		b := &strings.Builder{}
		fmt.Fprintf(b, "! c13 safe search version %d\n", v)
		fmt.Fprintf(b, "|%s^$dnsrewrite=NOERROR;CNAME;safe.c13.test\n", markerHost(lstSS, v, "first"))
		for i := range fillerLines {
			fmt.Fprintf(b, "|ss-v%d-fill%02d.test^$dnsrewrite=NOERROR;CNAME;safe.c13.test\n", v, i)
		}
		fmt.Fprintf(b, "|%s^$dnsrewrite=NOERROR;CNAME;safe.c13.test\n", markerHost(lstSS, v, "last"))

		return b.String()
	case posHP:
		b := &strings.Builder{}
		b.WriteString(markerHost(lstHP, v, "first") + "\n")
		for i := range fillerLines {
			fmt.Fprintf(b, "hp-v%d-fill%02d.test\n", v, i)
		}
		b.WriteString(markerHost(lstHP, v, "last") + "\n")

		return b.String()
	case posIdx:
		return indexJSON(v, "")
	case posSvc:
		return svcJSON(v, "")
	default:
		panic("c13: bad position " + pos)
	}
}

func urlOf(pos string) (u string) { return "http://" + pos + domain + "/data" }

// indexJSON returns version v of the rule-list index; kind selects the order
// of the entries and the shape of the entry of list 2.
func indexJSON(v int, kind string) (body string) {
	swapped, shape := splitKind(kind)
	e1 := map[string]any{"downloadUrl": urlOf(posL1), "filterKey": string(idL1)}
	e2 := map[string]any{"downloadUrl": urlOf(posL2), "filterKey": string(idL2)}
	switch shape {
	case kBadKey:
		e2["filterKey"] = "c13/list 2"
	case kEmptyURL:
		e2["downloadUrl"] = ""
	case kBadURL:
		e2["downloadUrl"] = "http://l2" + domain + ":port/%zz"
	case kNoURL:
		delete(e2, "downloadUrl")
	case kNullURL:
		e2["downloadUrl"] = nil
	case kNoKey:
		delete(e2, "filterKey")
	case kNullKey:
		e2["filterKey"] = nil
	}
	ents := []map[string]any{e1, e2}
	if swapped {
		ents = []map[string]any{e2, e1}
	}
	switch kind {
	case kDupBad:
		ents = []map[string]any{e1, {"downloadUrl": "", "filterKey": string(idL2)}, e2}
	case kDupID:
		ents = append(ents, map[string]any{"downloadUrl": "http://l2" + domain + "/dup", "filterKey": string(idL2)})
	case kExtra:
		ents = append(ents, map[string]any{"downloadUrl": "http://l0" + domain + "/data", "filterKey": idExtra})
	}
	data, err := json.Marshal(map[string]any{"c13IndexVersion": v, "filters": ents})
	if err != nil {
		panic(err)
	}

	return string(data) + "\n"
}

// svcJSON returns version v of the blocked-service index; kind selects the
// order of the entries and the shape of the entry of service 2.
func svcJSON(v int, kind string) (body string) {
	swapped, shape := splitKind(kind)
	e1 := map[string]any{"id": string(idS1), "name": "S1", "rules": ruleLines(lstS1, v)}
	e2 := map[string]any{"id": string(idS2), "name": "S2", "rules": ruleLines(lstS2, v)}
	switch shape {
	case kBadSvcID:
		e2["id"] = "c13 svc/2"
	case kSvcNoID:
		delete(e2, "id")
	case kSvcNullID:
		e2["id"] = nil
	case kSvcNoRules:
		delete(e2, "rules")
	case kSvcNullRules:
		e2["rules"] = nil
	}
	svcs := []map[string]any{e1, e2}
	if swapped {
		svcs = []map[string]any{e2, e1}
	}
	data, err := json.Marshal(map[string]any{"c13IndexVersion": v, "blocked_services": svcs})
	if err != nil {
		panic(err)
	}

	return string(data) + "\n"
}

// maxSizeOf returns the configured size limit of a position.
func maxSizeOf(pos string, factor int) (n int) {
	if factor > 1 {
		return factor * maxSizeOf(pos, 1)
	}
	switch pos {
	case posIdx:
		return int(maxIndexSize.Bytes())
	case posSvc:
		return int(maxSvcSize.Bytes())
	default:
		return int(maxListSize.Bytes())
	}
}

// delivered returns the complete body that a 200 answer of the given kind
// delivers (so that the cache file may legitimately hold it), or "" when the
// kind is a fetch fault.
func delivered(pos string, v int, kind string) (body string) {
	if isFetchFault(kind) {
		return ""
	}
	key := fmt.Sprintf("%s/%d/%s", pos, v, kind)
	contentMu.Lock()
	body, ok := contentCache[key]
	contentMu.Unlock()
	if ok {
		return body
	}
	body = buildDelivered(pos, v, kind)
	contentMu.Lock()
	contentCache[key] = body
	contentMu.Unlock()

	return body
}

func buildDelivered(pos string, v int, kind string) (body string) {
	switch kind {
	case kOK:
		return content(pos, v)
	case kNotJSON:
		c := content(pos, v)

		return c[:len(c)/2]
	case kOverlongLine:
		return withOverlongLine(pos, content(pos, v))
	default:
		if !isIndexShapeKind(pos, kind) {
			return ""
		}
		if pos == posIdx {
			return indexJSON(v, kind)
		}

		return svcJSON(v, kind)
	}
}

// withOverlongLine inserts one ignorable line of overlongLineLen octets into
// the middle of full.
func withOverlongLine(pos, full string) (body string) {
	if pos == posIdx || pos == posSvc {
		// The whole index is one line; make it a long one.
		sp := strings.IndexByte(full, '[') + 1

		return full[:sp] + strings.Repeat(" ", overlongLineLen) + full[sp:]
	}
	mark := "!"
	if pos == posHP {
		mark = "#"
	}
	lines := strings.SplitAfter(full, "\n")
	half := len(lines) / 2
	long := mark + strings.Repeat("p", overlongLineLen-2) + "\n"

	return strings.Join(lines[:half], "") + long + strings.Join(lines[half:], "")
}

// world is the scripted internet.  Its fields are changed only between
// refreshes.
type world struct {
	mu sync.Mutex

	// version is the version currently offered at every position.
	version int

	// plan maps a position to the deviation kind of the current round.
	plan map[string]string

	// down makes every dial fail.
	down bool

	// sizeFactor is the factor by which the size limits of the storage under
	// test are multiplied (0 or 1: none); oversized answers follow it.
	sizeFactor int

	// cancelRound cancels the context of the current refresh round, see
	// [world.roundContext].
	cancelRound context.CancelFunc

	// chunk, if positive, is the size of the pieces in which answers are
	// written to the connection (so that a download takes several reads and
	// therefore several writes to the temporary file).
	chunk int

	// requested counts the connection attempts per position in this round.
	requested map[string]int

	wg sync.WaitGroup
}

func newWorld() (w *world) {
	return &world{plan: map[string]string{}, requested: map[string]int{}}
}

// setRound installs the offered version and the deviations of a round.
func (w *world) setRound(v int, plan map[string]string) {
	w.mu.Lock()
	defer w.mu.Unlock()
	w.version = v
	w.plan = plan
	w.requested = map[string]int{}
}

// transport returns a real HTTP transport whose connections are served by w.
func (w *world) transport() (tr *http.Transport) {
	return &http.Transport{
		DialContext:        w.dial,
		DisableKeepAlives:  true,
		// Like http.DefaultTransport, which the code uses in production, ask
		// for gzip and decode it transparently.
		DisableCompression: false,
	}
}

func (w *world) dial(ctx context.Context, network, addr string) (c net.Conn, err error) {
	host, _, _ := net.SplitHostPort(addr)
	pos := strings.TrimSuffix(host, domain)

	w.mu.Lock()
	w.requested[pos]++
	kind := w.plan[pos]
	v := w.version
	down := w.down
	cancelRound := w.cancelRound
	w.mu.Unlock()

	switch kind {
	case kCtxCancel:
		// ctx derives from the round context through the request.
		if cancelRound != nil {
			cancelRound()
		}
		if err = ctx.Err(); err == nil {
			err = context.Canceled
		}

		return nil, err
	case kCtxDeadline:
		<-ctx.Done()

		return nil, ctx.Err()
	}

	if down || kind == kDial {
		return nil, &net.OpError{Op: "dial", Net: network, Err: syscall.ECONNREFUSED}
	}

	cli, srv := net.Pipe()
	w.wg.Add(1)
	go w.serve(srv, pos, v, kind)

	return cli, nil
}

// serve reads one request and writes the scripted raw answer.
func (w *world) serve(c net.Conn, pos string, v int, kind string) {
	defer w.wg.Done()
	defer c.Close()

	req, err := http.ReadRequest(bufio.NewReader(c))
	if err != nil {
		return
	}

	raw, stall := rawResponse(pos, req.URL.Path, v, kind, w.sizeFactor)
	for len(raw) > 0 {
		n := len(raw)
		if w.chunk > 0 && n > w.chunk {
			n = w.chunk
		}
		if _, err = c.Write(raw[:n]); err != nil {
			break
		}
		raw = raw[n:]
	}
	if stall {
		// Hold the connection until the client gives up.
		_, _ = io.Copy(io.Discard, c)
	}
}

// rawResponse returns the bytes written to the connection and whether the
// server then keeps the connection open silently.
func rawResponse(pos, path string, v int, kind string, factor int) (raw []byte, stall bool) {
	const hdr = "Server: c13/1.0\r\nConnection: close\r\n"
	status := func(code int, text string) []byte {
		body := text + "\n"

		return []byte(fmt.Sprintf("HTTP/1.1 %d %s\r\n%sContent-Type: text/plain\r\nContent-Length: %d\r\n\r\n%s",
			code, text, hdr, len(body), body))
	}
	ok := func(cl int, body string) []byte {
		return []byte(fmt.Sprintf("HTTP/1.1 200 OK\r\n%sContent-Type: text/plain\r\nContent-Length: %d\r\n\r\n%s",
			hdr, cl, body))
	}

	if path != "/data" {
		return status(http.StatusNotFound, "Not Found"), false
	}

	full := ""
	switch pos {
	case posIdx, posL1, posL2, posSvc, posSS, posHP:
		full = content(pos, v)
	default:
		return status(http.StatusNotFound, "Not Found"), false
	}

	switch kind {
	case "", kOK:
		return ok(len(full), full), false
	case kTimeout:
		return nil, true
	case kTimeoutBody:
		return ok(len(full), full[:len(full)/2]), true
	case k404:
		return status(http.StatusNotFound, "Not Found"), false
	case k500:
		return status(http.StatusInternalServerError, "Internal Server Error"), false
	case kEmpty:
		return ok(0, ""), false
	case kOversize:
		// The complete offered version, then comment padding beyond the limit.
		b := &strings.Builder{}
		b.WriteString(full)
		pad := "! padding padding padding padding padding padding padding padding\n"
		if pos == posIdx || pos == posSvc {
			pad = "                                                                \n"
		}
		for b.Len() <= maxSizeOf(pos, factor)+512 {
			b.WriteString(pad)
		}

		return ok(b.Len(), b.String()), false
	case kEmptyChunked:
		return chunkedOK(hdr, ""), false
	case kEmptyClose:
		return []byte("HTTP/1.1 200 OK\r\n" + hdr + "Content-Type: text/plain\r\n\r\n"), false
	case kEmptyGzip:
		z := emptyGzip()

		return []byte(fmt.Sprintf("HTTP/1.1 200 OK\r\n%sContent-Type: text/plain\r\nContent-Encoding: gzip\r\nContent-Length: %d\r\n\r\n%s",
			hdr, len(z), z)), false
	case kOversizeChunked, kOversizeChunkedCut:
		return chunkedOK(hdr, oversizedBody(pos, full, kind == kOversizeChunkedCut, factor)), false
	case kCut:
		return ok(len(full), full[:len(full)/2]), false
	case kChunked:
		h := len(full) / 2
		s := fmt.Sprintf("HTTP/1.1 200 OK\r\n%sContent-Type: text/plain\r\nTransfer-Encoding: chunked\r\n\r\n%x\r\n%s\r\n%x\r\n%s",
			hdr, h, full[:h], len(full)-h, full[h:h+(len(full)-h)/2])

		return []byte(s), false
	default:
		d := delivered(pos, v, kind)
		if d == "" {
			panic("c13: bad kind " + kind + " at " + pos)
		}

		return ok(len(d), d), false
	}
}

// padding returns n bytes that are ignored by the parser of the content at
// pos: JSON whitespace for the indexes, comment lines for the lists.  n must be
// at least 2 for the lists.
func padding(pos string, n int) (pad string) {
	if pos == posIdx || pos == posSvc {
		return strings.Repeat(" ", n)
	}
	mark := "!"
	if pos == posHP {
		mark = "#"
	}
	b := &strings.Builder{}
	for n > 0 {
		l := 64
		if n < l+2 {
			// The last line takes what is left (never a lone byte).
			l = n
		}
		b.WriteString(mark + strings.Repeat("p", l-2) + "\n")
		n -= l
	}

	return b.String()
}

// oversizedBody returns a body that is the complete content full made longer
// than the size limit of pos by padding the parser ignores.  If cut is false
// the padding follows the content, so the first limit bytes hold the whole
// offered version.  If cut is true the padding is inserted right after the
// first marker (after the opening bracket of the array for the indexes), so
// that the limit falls in the middle of a later rule: the first limit bytes
// contain the first marker but not the last one.
func oversizedBody(pos, full string, cut bool, factor int) (body string) {
	limit := maxSizeOf(pos, factor)
	if !cut {
		return full + padding(pos, limit+512-len(full))
	}
	var sp int
	switch pos {
	case posIdx, posSvc:
		sp = strings.IndexByte(full, '[') + 1
	case posHP:
		sp = strings.IndexByte(full, '\n') + 1
	default:
		// Header comment and the first marker rule.
		sp = strings.IndexByte(full, '\n') + 1
		sp += strings.IndexByte(full[sp:], '\n') + 1
	}
	pre, post := full[:sp], full[sp:]
	// The limit falls len(post)/2 bytes into post; nudge it off a line end.
	at := len(post) / 2
	for at > 0 && (post[at] == '\n' || post[at-1] == '\n') {
		at--
	}

	return pre + padding(pos, limit-len(pre)-at) + post
}

// emptyGzip returns a valid gzip stream of zero bytes.
func emptyGzip() (z string) {
	b := &bytes.Buffer{}
	zw := gzip.NewWriter(b)
	if err := zw.Close(); err != nil {
		panic(err)
	}

	return b.String()
}

// chunkedOK returns a complete 200 answer with the body in chunked transfer
// encoding, terminated by the zero chunk.
func chunkedOK(hdr, body string) (raw []byte) {
	b := &strings.Builder{}
	fmt.Fprintf(b, "HTTP/1.1 200 OK\r\n%sContent-Type: text/plain\r\nTransfer-Encoding: chunked\r\n\r\n", hdr)
	for len(body) > 0 {
		n := min(len(body), 1000)
		fmt.Fprintf(b, "%x\r\n%s\r\n", n, body[:n])
		body = body[n:]
	}
	b.WriteString("0\r\n\r\n")

	return []byte(b.String())
}

// nopColl discards collected errors.
type nopColl struct{}

func (nopColl) Collect(_ context.Context, _ error) {}

func mustURL(s string) (u *url.URL) {
	u, err := url.Parse(s)
	if err != nil {
		panic(err)
	}

	return u
}

// storageParams are the time settings of a storage.
type storageParams struct {
	staleness time.Duration
	timeout   time.Duration

	// rulesOnly disables the blocked-service filter and the safe search, so
	// that a round consists of the rule-list index and the rule lists only.
	rulesOnly bool

	// sizeFactor multiplies the size limits (the kill-point children use
	// bigger lists so that one download takes several write calls).
	sizeFactor int
}

func (p storageParams) size(n datasize.ByteSize) (scaled datasize.ByteSize) {
	if p.sizeFactor > 1 {
		return n * datasize.ByteSize(p.sizeFactor)
	}

	return n
}

// newStorage builds the real filter storage over cacheDir: two rule lists via
// the rule-list index, the blocked-service index and the general safe search.
func newStorage(cacheDir string, p storageParams) (s *filterstorage.Default, err error) {
	return filterstorage.New(&filterstorage.Config{
		BaseLogger: slogutil.NewDiscardLogger(),
		Logger:     slogutil.NewDiscardLogger(),
		BlockedServices: &filterstorage.ConfigBlockedServices{
			IndexURL:            mustURL(urlOf(posSvc)),
			IndexMaxSize:        p.size(maxSvcSize),
			IndexRefreshTimeout: p.timeout,
			IndexStaleness:      p.staleness,
			ResultCacheCount:    100,
			ResultCacheEnabled:  true,
			Enabled:             !p.rulesOnly,
		},
		Custom:     &filterstorage.ConfigCustom{CacheCount: 10},
		HashPrefix: &filterstorage.ConfigHashPrefix{},
		RuleLists: &filterstorage.ConfigRuleLists{
			IndexURL:            mustURL(urlOf(posIdx)),
			IndexMaxSize:        p.size(maxIndexSize),
			MaxSize:             p.size(maxListSize),
			IndexRefreshTimeout: p.timeout,
			IndexStaleness:      p.staleness,
			RefreshTimeout:      p.timeout,
			Staleness:           p.staleness,
			ResultCacheCount:    100,
			ResultCacheEnabled:  true,
		},
		SafeSearchGeneral: &filterstorage.ConfigSafeSearch{
			URL:              mustURL(urlOf(posSS)),
			ID:               filter.IDGeneralSafeSearch,
			MaxSize:          p.size(maxListSize),
			ResultCacheTTL:   time.Hour,
			RefreshTimeout:   p.timeout,
			Staleness:        p.staleness,
			ResultCacheCount: 100,
			Enabled:          !p.rulesOnly,
		},
		SafeSearchYouTube: &filterstorage.ConfigSafeSearch{
			ID:      filter.IDYoutubeSafeSearch,
			Enabled: false,
		},
		CacheManager: agdcache.EmptyManager{},
		Clock:        agdtime.SystemClock{},
		ErrColl:      nopColl{},
		Metrics:      filter.EmptyMetrics{},
		CacheDir:     cacheDir,
	})
}

// cacheFileOf maps a storage download position to its cache file name.
func cacheFileOf(pos string) (name string) {
	switch pos {
	case posIdx:
		return "filters.json"
	case posL1:
		return string(idL1)
	case posL2:
		return string(idL2)
	case posSvc:
		return "services.json"
	case posSS:
		return string(filter.IDGeneralSafeSearch)
	case posHP:
		return string(filter.IDAdultBlocking)
	default:
		panic("c13: bad position " + pos)
	}
}

// newHashprefix builds the real adult-blocking hashprefix filter.
func newHashprefix(cacheDir string, p storageParams) (f *hashprefix.Filter, err error) {
	strg, err := hashprefix.NewStorage("")
	if err != nil {
		return nil, err
	}

	return hashprefix.NewFilter(&hashprefix.FilterConfig{
		Logger:          slogutil.NewDiscardLogger(),
		Cloner:          dnsmsg.NewCloner(dnsmsg.EmptyClonerStat{}),
		CacheManager:    agdcache.EmptyManager{},
		Hashes:          strg,
		URL:             mustURL(urlOf(posHP)),
		ErrColl:         nopColl{},
		Metrics:         filter.EmptyMetrics{},
		ID:              filter.IDAdultBlocking,
		CachePath:       filepath.Join(cacheDir, cacheFileOf(posHP)),
		ReplacementHost: "repl.c13.test",
		Staleness:       p.staleness,
		CacheTTL:        time.Hour,
		RefreshTimeout:  p.timeout,
		CacheCount:      100,
		MaxSize:         p.size(maxListSize),
	})
}

var (
	msgsOnce sync.Once
	msgs     *dnsmsg.Constructor
)

func constructor() (c *dnsmsg.Constructor) {
	msgsOnce.Do(func() {
		var err error
		msgs, err = dnsmsg.NewConstructor(&dnsmsg.ConstructorConfig{
			Cloner:              dnsmsg.NewCloner(dnsmsg.EmptyClonerStat{}),
			BlockingMode:        &dnsmsg.BlockingModeNullIP{},
			StructuredErrors:    &dnsmsg.StructuredDNSErrorsConfig{Enabled: false},
			FilteredResponseTTL: 10 * time.Second,
			EDEEnabled:          false,
		})
		if err != nil {
			panic(err)
		}
	})

	return msgs
}

func newReq(host string) (req *filter.Request) {
	return &filter.Request{
		DNS: &dns.Msg{Question: []dns.Question{{
			Name:   dns.Fqdn(host),
			Qtype:  dns.TypeA,
			Qclass: dns.ClassINET,
		}}},
		Messages: constructor(),
		RemoteIP: netip.MustParseAddr("192.0.2.1"),
		Host:     host,
		QType:    dns.TypeA,
		QClass:   dns.ClassINET,
	}
}

// clientConf enables everything the storage serves.
func clientConf() (c *filter.ConfigClient) {
	return &filter.ConfigClient{
		Custom: &filter.ConfigCustom{},
		Parental: &filter.ConfigParental{
			BlockedServices:          []filter.BlockedServiceID{idS1, idS2},
			Enabled:                  true,
			SafeSearchGeneralEnabled: true,
		},
		RuleList:     &filter.ConfigRuleList{IDs: []filter.ID{idL1, idL2}, Enabled: true},
		SafeBrowsing: &filter.ConfigSafeBrowsing{},
	}
}

// Served states other than "v<n>".
const (
	stAbsent = "absent"
)

// wantSource tells which filter must be the one that matches a marker host of
// a logical list.
func wantSource(lst string) (id filter.ID, rule string) {
	switch lst {
	case lstL1:
		return idL1, ""
	case lstL2:
		return idL2, ""
	case lstS1:
		return filter.IDBlockedService, string(idS1)
	case lstS2:
		return filter.IDBlockedService, string(idS2)
	case lstSS:
		return filter.IDGeneralSafeSearch, ""
	case lstHP:
		return filter.IDAdultBlocking, ""
	default:
		panic("c13: bad list " + lst)
	}
}

// servedState filters the marker hosts of every version of lst through f and
// returns "v<n>" when exactly the two markers of version n match, "absent"
// when none matches, and "corrupt:<matching markers>" otherwise (truncated,
// mixed or cross-wired content).  nq is the number of requests made.
func servedState(ctx context.Context, f filter.Interface, lst string, versions int) (st string, nq int) {
	type hit struct {
		v   int
		end string
	}
	var good []hit
	var hits []string
	clean := true
	wantID, wantRule := wantSource(lst)
	for v := range versions {
		for _, end := range []string{"first", "last"} {
			host := markerHost(lst, v, end)
			nq++
			r, err := f.FilterRequest(ctx, newReq(host))
			if err != nil {
				hits = append(hits, fmt.Sprintf("v%d-%s:error(%v)", v, end, err))
				clean = false

				continue
			}
			if lst != lstSS {
				// The lists also match subdomains.  A name that was never
				// asked before cannot be answered from a result cache, so the
				// content of the list itself is probed; it must agree with
				// the (possibly cached) answer for the marker host.
				nq++
				probeSeq++
				r2, err2 := f.FilterRequest(ctx, newReq(fmt.Sprintf("n%d.%s", probeSeq, host)))
				if err2 != nil || (r == nil) != (r2 == nil) {
					hits = append(hits, fmt.Sprintf("v%d-%s:cached(%t)-vs-fresh(%t,%v)", v, end, r != nil, r2 != nil, err2))
					clean = false

					continue
				}
			}
			if r == nil {
				continue
			}
			id, rule := r.MatchedRule()
			switch r.(type) {
			case *filter.ResultBlocked, *filter.ResultModifiedRequest, *filter.ResultModifiedResponse:
				// Filtered.
			default:
				hits = append(hits, fmt.Sprintf("v%d-%s:%T", v, end, r))
				clean = false

				continue
			}
			if id != wantID || (wantRule != "" && string(rule) != wantRule) {
				hits = append(hits, fmt.Sprintf("v%d-%s:by(%s,%s)", v, end, id, rule))
				clean = false

				continue
			}
			hits = append(hits, fmt.Sprintf("v%d-%s", v, end))
			good = append(good, hit{v: v, end: end})
		}
	}
	if len(hits) == 0 {
		return stAbsent, nq
	}
	if clean && len(good) == 2 && good[0].v == good[1].v && good[0].end == "first" && good[1].end == "last" {
		return fmt.Sprintf("v%d", good[0].v), nq
	}

	return "corrupt:" + strings.Join(hits, "+"), nq
}

// probeSeq numbers the never-asked-before probe names of this process.
var probeSeq uint64

func isComplete(st string) (ok bool) { return strings.HasPrefix(st, "v") }

// probeStorage returns the served state of every logical list of a storage.
func probeStorage(ctx context.Context, s *filterstorage.Default, versions int) (obs map[string]string, nq int) {
	f := s.ForConfig(ctx, clientConf())
	obs = map[string]string{}
	for _, lst := range storageLists {
		st, n := servedState(ctx, f, lst, versions)
		obs[lst] = st
		nq += n
	}

	return obs, nq
}

// readCacheDir returns the content of every regular non-temporary file of the
// cache directory.  renameio temporary files start with a dot.
func readCacheDir(dir string) (files map[string]string, temps []string, err error) {
	ents, err := os.ReadDir(dir)
	if err != nil {
		return nil, nil, err
	}
	files = map[string]string{}
	for _, e := range ents {
		if e.IsDir() {
			continue
		}
		if strings.HasPrefix(e.Name(), ".") {
			temps = append(temps, e.Name())

			continue
		}
		data, rerr := os.ReadFile(filepath.Join(dir, e.Name()))
		if rerr != nil {
			return nil, nil, rerr
		}
		files[e.Name()] = string(data)
	}
	sort.Strings(temps)

	return files, temps, nil
}

// fmtObs renders an observation map canonically.
func fmtObs(obs map[string]string) (s string) {
	keys := make([]string, 0, len(obs))
	for k := range obs {
		keys = append(keys, k)
	}
	sort.Strings(keys)
	parts := make([]string, 0, len(keys))
	for _, k := range keys {
		parts = append(parts, k+"="+obs[k])
	}

	return strings.Join(parts, " ")
}

// short abbreviates file content for messages.
func short(s string) (out string) {
	if len(s) > 60 {
		return fmt.Sprintf("%q…(%d bytes)", s[:60], len(s))
	}

	return fmt.Sprintf("%q", s)
}
