//go:build verif

package c13

import (
	"bufio"
	"context"
	"encoding/json"
	"fmt"
	"net/http"
	"os"
	"os/exec"
	"path/filepath"
	"regexp"
	"runtime"
	"sort"
	"strconv"
	"strings"
	"testing"
	"time"

	"github.com/AdguardTeam/AdGuardDNS/internal/dnsserver/zzverif/vrt"
)

// Kill-point unit (engine XK).
//
// A child process (this test binary re-executed with C13_ROLE=refresh)
// establishes version 0 of every list in an empty cache directory, writes the
// marker "C13-BEGIN" to a marker file, refreshes the storage and the
// hashprefix filter while version 1 is offered everywhere, and writes
// "C13-END".  The parent runs the child under
//
//	strace -f -o <log> -e trace=<set> -e inject=<syscall>:signal=KILL:when=<k>
//
// for every syscall of the set and every k that falls between the two markers,
// so the whole process is SIGKILLed at the entry of each file-system call of
// the update (the call itself is not executed).  After every kill the parent
// checks the cache directory and starts a restart child (C13_ROLE=restart,
// network down) that must serve a complete version 0 or 1 of every list.
//
// strace counts `when=` per thread and per syscall; the child therefore locks
// its goroutine to one OS thread, all file-system calls of a refresh are made
// by that goroutine, and k is counted per syscall name on that thread.  The
// parent does not trust the counters: it parses the strace log of every run
// and derives where the kill really landed.

// killSyscalls is the set of traced and injected system calls: everything
// that creates, fills, syncs, renames, removes or re-times a file.
var killSyscalls = []string{
	"openat", "write", "pwrite64", "fsync", "fdatasync", "rename", "renameat", "renameat2",
	"unlink", "unlinkat", "ftruncate", "utimensat", "fchmod", "fchmodat", "linkat",
}

const (
	envRole    = "C13_ROLE"
	envDir     = "C13_DIR"
	envMark    = "C13_MARK"
	envResult  = "C13_RESULT"
	envFillers = "C13_FILLERS"

	markBegin = "C13-BEGIN\n"
	markEnd   = "C13-END\n"

	// killSlack is how far beyond the dry-run count every syscall is
	// enumerated; runs in which the child finishes unkilled are classed
	// "not-reached".
	killSlack = 2

	// killMaxK is the fixed enumeration width per syscall; it only fixes the
	// shard assignment, cases beyond the dry-run count + slack are skipped.
	killMaxK = 4000
)

var childParams = storageParams{staleness: time.Nanosecond, timeout: 30 * time.Minute, sizeFactor: 64}

// TestVerifC13Child is the child process of the kill-point unit.  It does
// nothing unless C13_ROLE is set.
func TestVerifC13Child(t *testing.T) {
	role := os.Getenv(envRole)
	if role == "" {
		t.Skip("not a C13 child")
	}
	runtime.LockOSThread()
	if n, err := strconv.Atoi(os.Getenv(envFillers)); err == nil && n > 0 {
		fillerLines = n
	}
	dir := os.Getenv(envDir)
	ctx := context.Background()
	w := newWorld()
	w.chunk = 1024
	http.DefaultTransport = w.transport()

	switch role {
	case "refresh":
		mark, err := os.OpenFile(os.Getenv(envMark), os.O_CREATE|os.O_WRONLY|os.O_APPEND, 0o600)
		if err != nil {
			childFail("opening marker file: %v", err)
		}
		s, err := newStorage(dir, childParams)
		if err != nil {
			childFail("building storage: %v", err)
		}
		hp, err := newHashprefix(dir, childParams)
		if err != nil {
			childFail("building hashprefix: %v", err)
		}
		w.setRound(0, nil)
		if err = s.RefreshInitial(ctx); err != nil {
			childFail("establishing version 0: %v", err)
		}
		if err = hp.RefreshInitial(ctx); err != nil {
			childFail("establishing hashprefix version 0: %v", err)
		}
		w.setRound(1, nil)
		if _, err = mark.WriteString(markBegin); err != nil {
			childFail("writing marker: %v", err)
		}
		if err = s.Refresh(ctx); err != nil {
			childFail("refresh: %v", err)
		}
		if err = hp.Refresh(ctx); err != nil {
			childFail("hashprefix refresh: %v", err)
		}
		if _, err = mark.WriteString(markEnd); err != nil {
			childFail("writing marker: %v", err)
		}
		os.Exit(0)
	case "restart":
		w.down = true
		res := restartResult{Obs: map[string]string{}}
		s, err := newStorage(dir, childParams)
		if err != nil {
			childFail("building storage: %v", err)
		}
		hp, err := newHashprefix(dir, childParams)
		if err != nil {
			childFail("building hashprefix: %v", err)
		}
		if err = s.RefreshInitial(ctx); err != nil {
			res.Err = err.Error()
		} else {
			res.Obs, _ = probeStorage(ctx, s, 2)
		}
		if err = hp.RefreshInitial(ctx); err != nil {
			res.HPErr = err.Error()
		} else {
			res.Obs[lstHP], _ = servedState(ctx, hpProbe{hp}, lstHP, 2)
		}
		data, _ := json.Marshal(res)
		if err = os.WriteFile(os.Getenv(envResult), data, 0o600); err != nil {
			childFail("writing result: %v", err)
		}
		os.Exit(0)
	default:
		childFail("bad role %q", role)
	}
}

// restartResult is what the restart child reports.
type restartResult struct {
	Err   string            `json:"err"`
	HPErr string            `json:"hp_err"`
	Obs   map[string]string `json:"obs"`
}

func childFail(format string, args ...any) {
	fmt.Fprintf(os.Stderr, "C13-CHILD-ERROR: "+format+"\n", args...)
	os.Exit(3)
}

// killCase is one kill point: the K-th call of Sys after the BEGIN marker on
// the refreshing thread, in the given TMPDIR variant.  An empty Sys is the
// complete run without a kill.
type killCase struct {
	Variant string `json:"variant"`
	Sys     string `json:"syscall"`
	K       int    `json:"k"`
}

// Variants: renameio creates its temporary file in $TMPDIR when that is on
// the file system of the cache directory, else next to the cache file.
const (
	variantTmpSame  = "tmpdir-on-cache-fs"
	variantTmpOther = "tmpdir-on-other-fs"
)

// killRig is the per-process state of the kill-point parent.
type killRig struct {
	r       *vrt.Run
	exe     string
	strace  string
	base    string // scratch on the cache file system
	other   string // scratch on another file system, "" if none
	fillers int
	runNo   int
	kept    int

	// dry holds, per variant, the per-syscall counts of the refreshing thread
	// before the BEGIN marker (n0) and between the markers (n).
	dry map[string]*dryCounts
}

type dryCounts struct {
	n0, n map[string]int
	total int
}

// traceLine is one syscall-entry line of a strace log.
type traceLine struct {
	pid  string
	sys  string
	text string
}

var traceRe = regexp.MustCompile(`^(\d+)\s+([a-z0-9_]+)\((.*)$`)

// parseTrace returns the syscall-entry lines of a strace -f -o log and whether
// the process was killed by SIGKILL.
func parseTrace(path string) (lines []traceLine, killed bool, err error) {
	f, err := os.Open(path)
	if err != nil {
		return nil, false, err
	}
	defer f.Close()
	sc := bufio.NewScanner(f)
	sc.Buffer(make([]byte, 1<<20), 1<<20)
	for sc.Scan() {
		ln := sc.Text()
		if strings.Contains(ln, "+++ killed by SIGKILL +++") {
			killed = true

			continue
		}
		m := traceRe.FindStringSubmatch(ln)
		if m == nil {
			continue
		}
		tl := traceLine{pid: m[1], sys: m[2], text: m[3]}
		if n := len(lines); n > 0 && strings.HasSuffix(tl.text, "<unfinished ...>") &&
			lines[n-1].sys == tl.sys && lines[n-1].text == tl.text && lines[n-1].pid != tl.pid {
			// strace 6.1 sometimes prints the entry of the killed call a
			// second time under the id of the thread whose death it notices
			// first; the call was entered once, by the first thread.
			continue
		}
		lines = append(lines, tl)
	}

	return lines, killed, sc.Err()
}

// landing describes where the traced child stood when the log ended.
type landing struct {
	// phase is "before-begin", "refresh" or "after-end".
	phase string

	// thread is the refreshing thread (the writer of the BEGIN marker).
	thread string

	// counts are the per-syscall numbers of calls entered by the refreshing
	// thread after the BEGIN marker, the killed one included.
	counts map[string]int

	// n0 are the per-syscall numbers of calls of that thread up to and
	// including the BEGIN marker.
	n0 map[string]int

	// last is the last syscall-entry line of the log.
	last traceLine

	// cacheOps is the number of calls after BEGIN on the refreshing thread.
	cacheOps int
}

func analyse(lines []traceLine) (l landing) {
	l = landing{phase: "before-begin", counts: map[string]int{}, n0: map[string]int{}}
	beginAt, endAt := -1, -1
	for i, tl := range lines {
		if tl.sys == "write" && strings.Contains(tl.text, `"C13-BEGIN\n"`) {
			beginAt = i
			l.thread = tl.pid
		}
		if tl.sys == "write" && strings.Contains(tl.text, `"C13-END\n"`) {
			endAt = i
		}
	}
	if len(lines) > 0 {
		l.last = lines[len(lines)-1]
	}
	if beginAt < 0 {
		return l
	}
	l.phase = "refresh"
	if endAt >= 0 {
		l.phase = "after-end"
	}
	for i, tl := range lines {
		if tl.pid != l.thread {
			continue
		}
		switch {
		case i <= beginAt:
			l.n0[tl.sys]++
		case endAt < 0 || i < endAt:
			l.counts[tl.sys]++
			l.cacheOps++
		}
	}

	return l
}

// childEnv returns the environment of a child.
func (g *killRig) childEnv(role, variant, dir string, extra ...string) (env []string) {
	tmp := filepath.Join(filepath.Dir(dir), "tmp")
	if variant == variantTmpOther {
		tmp = filepath.Join(g.other, "tmp-"+filepath.Base(filepath.Dir(dir)))
	}
	_ = os.MkdirAll(tmp, 0o700)
	for _, e := range os.Environ() {
		if strings.HasPrefix(e, "C13_") || strings.HasPrefix(e, "VERIF_") || strings.HasPrefix(e, "TMPDIR=") ||
			strings.HasPrefix(e, "GOMAXPROCS=") {
			continue
		}
		env = append(env, e)
	}
	env = append(env, envRole+"="+role, envDir+"="+dir, "TMPDIR="+tmp, "GOMAXPROCS=1",
		envFillers+"="+strconv.Itoa(g.fillers))

	return append(env, extra...)
}

// runRefreshChild runs the refresh child under strace in a fresh directory.
// inject is "" for a dry run.
func (g *killRig) runRefreshChild(variant, sys string, when int) (work, dir string, l landing, killed bool, exit int) {
	g.runNo++
	work = filepath.Join(g.base, fmt.Sprintf("run%d", g.runNo))
	dir = filepath.Join(work, "cache")
	if err := os.MkdirAll(dir, 0o700); err != nil {
		vrt.Fatalf("creating run dir: %v", err)
	}
	logPath := filepath.Join(work, "strace.log")
	args := []string{"-f", "-o", logPath, "-e", "trace=" + strings.Join(killSyscalls, ",")}
	if sys != "" {
		args = append(args, "-e", fmt.Sprintf("inject=%s:signal=KILL:when=%d", sys, when))
	}
	args = append(args, g.exe, "-test.run", "^TestVerifC13Child$", "-test.count=1", "-test.timeout=0")
	cmd := exec.Command(g.strace, args...)
	cmd.Env = g.childEnv("refresh", variant, dir, envMark+"="+filepath.Join(work, "marker"))
	cmd.Dir = work
	out, err := cmd.CombinedOutput()
	exit = 0
	if err != nil {
		if ee, ok := err.(*exec.ExitError); ok {
			exit = ee.ExitCode()
		} else {
			vrt.Fatalf("starting strace: %v", err)
		}
	}
	if strings.Contains(string(out), "C13-CHILD-ERROR") {
		vrt.Fatalf("refresh child failed by itself: %s", out)
	}
	lines, killed, perr := parseTrace(logPath)
	if perr != nil {
		vrt.Fatalf("parsing strace log: %v (%s)", perr, out)
	}

	return work, dir, analyse(lines), killed, exit
}

// dryRun measures the per-syscall counts of a variant.
func (g *killRig) dryRun(variant string) (d *dryCounts) {
	if d = g.dry[variant]; d != nil {
		return d
	}
	work, dir, l, killed, exit := g.runRefreshChild(variant, "", 0)
	if killed || exit != 0 || l.phase != "after-end" {
		vrt.Fatalf("dry run of the refresh child did not complete (killed=%t exit=%d phase=%s)", killed, exit, l.phase)
	}
	_ = dir
	_ = os.RemoveAll(work)
	d = &dryCounts{n0: l.n0, n: l.counts, total: l.cacheOps}
	g.dry[variant] = d

	return d
}

// runKillCase executes one kill point and checks the directory and the
// restart.
func (g *killRig) runKillCase(c killCase) (out []vrt.Finding) {
	fs := &findings{}
	// A kill that lands somewhere else than asked (not observed once the
	// duplicated log line of strace is ignored, see parseTrace) would still
	// be a legitimate kill point and is judged like any other, but the case
	// is repeated so that the requested point is exercised as well.
	for attempt := 1; attempt <= 3; attempt++ {
		if g.runKillOnce(fs, c) {
			break
		}
		g.r.Class("kill:off-target-repeated")
	}

	return fs.list
}

// runKillOnce runs the refresh child once with the kill of c injected, judges
// the resulting directory and restart, and reports whether the kill landed
// where it was asked for (or the child completed).
func (g *killRig) runKillOnce(fs *findings, c killCase) (onTarget bool) {
	when := 0
	if c.Sys != "" {
		when = g.dryRun(c.Variant).n0[c.Sys] + c.K
	}
	work, dir, l, killed, exit := g.runRefreshChild(c.Variant, c.Sys, when)
	if os.Getenv("C13_KEEP") == "" {
		defer os.RemoveAll(work)
	} else {
		fmt.Fprintf(os.Stderr, "C13-KEEP %+v work=%s landing=%+v\n", c, work, l)
	}
	g.r.Trans(l.cacheOps)

	switch {
	case !killed && l.phase == "after-end" && c.Sys == "":
		onTarget = true
		g.r.Class("complete-run:no-kill")
	case !killed && l.phase == "after-end":
		onTarget = true
		g.r.Class("not-reached:child-completed")
	case !killed:
		vrt.Fatalf("kill case %+v: child neither killed nor complete (exit %d, phase %s)", c, exit, l.phase)
	case l.phase == "before-begin":
		g.r.Class("kill:before-begin(" + l.last.sys + ")")
	case l.phase == "after-end":
		onTarget = true
		g.r.Class("kill:after-end(" + l.last.sys + ")")
	default:
		site := l.last.sys
		onTarget = l.last.pid == l.thread && l.last.sys == c.Sys && l.counts[c.Sys] == c.K
		if !onTarget {
			site += "@off-target"
			g.r.Note("kill %+v landed at thread %s (refreshing thread %s) %s(%s, counts %v", c, l.last.pid, l.thread, l.last.sys,
				clip(l.last.text), l.counts)
			g.keepLog(work)
		}
		g.r.Class("kill:refresh(" + site + ")")
	}

	// Directory invariant: every final cache file is exactly version 0 or 1.
	files, temps, err := readCacheDir(dir)
	if err != nil {
		vrt.Fatalf("reading cache dir: %v", err)
	}
	all := append(append([]string{}, storagePositions...), posHP)
	disk := map[string]string{}
	established := l.phase != "before-begin"
	for _, pos := range all {
		name := cacheFileOf(pos)
		data, ok := files[name]
		switch {
		case !ok && established:
			fs.add("kill/cache-file-missing", "kill %+v (at %s %s): cache file %s is gone", c, l.last.sys, clip(l.last.text), name)
		case !ok:
			disk[pos] = "missing"
		case data == content(pos, 0) && !killed && l.phase == "after-end":
			disk[pos] = "v0"
			fs.add("kill/complete-refresh-left-old-cache-file", "run %+v completed its refresh, cache file %s still holds version 0", c, name)
		case data == content(pos, 0):
			disk[pos] = "v0"
		case data == content(pos, 1):
			disk[pos] = "v1"
		default:
			disk[pos] = "other"
			fs.add("kill/cache-file-neither-old-nor-new",
				"kill %+v (at %s %s): cache file %s holds %s (%d bytes; v0 %d bytes, v1 %d bytes)",
				c, l.last.sys, clip(l.last.text), name, short(data), len(data), len(content(pos, 0)), len(content(pos, 1)))
		}
	}

	// Restart with the network down.
	resPath := filepath.Join(work, "restart.json")
	cmd := exec.Command(g.exe, "-test.run", "^TestVerifC13Child$", "-test.count=1", "-test.timeout=0")
	cmd.Env = g.childEnv("restart", c.Variant, dir, envResult+"="+resPath)
	cmd.Dir = work
	rout, rerr := cmd.CombinedOutput()
	g.r.Trans(2)
	var res restartResult
	data, ferr := os.ReadFile(resPath)
	if rerr != nil || ferr != nil || json.Unmarshal(data, &res) != nil {
		vrt.Fatalf("restart child broke: %v %v: %s", rerr, ferr, rout)
	}
	if established {
		if res.Err != "" {
			fs.add("kill/restart-fails", "kill %+v (at %s %s), disk %v: restart with the network down fails: %s",
				c, l.last.sys, clip(l.last.text), fmtObs(disk), res.Err)
		}
		if res.HPErr != "" {
			fs.add("kill/restart-fails", "kill %+v (at %s %s), disk %v: hashprefix restart with the network down fails: %s",
				c, l.last.sys, clip(l.last.text), fmtObs(disk), res.HPErr)
		}
		src := map[string]string{lstL1: posL1, lstL2: posL2, lstS1: posSvc, lstS2: posSvc, lstSS: posSS, lstHP: posHP}
		for lst, pos := range src {
			st, ok := res.Obs[lst]
			if !ok {
				continue
			}
			if !in(st, "v0", "v1") {
				fs.add("kill/restart-serves-incomplete-version", "kill %+v (at %s %s), disk %v: restarted process serves list %s as %s",
					c, l.last.sys, clip(l.last.text), fmtObs(disk), lst, st)
			} else if in(disk[pos], "v0", "v1") && st != disk[pos] {
				fs.add("kill/restart-serves-other-than-cache", "kill %+v: list %s served as %s but the cache file holds %s", c, lst, st, disk[pos])
			}
		}
	}
	if len(temps) > 0 {
		g.r.Class("kill:temp-files-left-in-cache-dir")
	}
	g.r.State(fmt.Sprintf("%s|%s|%s|%d|disk[%s]|restart[%s|%s|%s]", c.Variant, l.phase, l.last.sys, l.cacheOps,
		fmtObs(disk), res.Err, res.HPErr, fmtObs(res.Obs)))

	return onTarget
}

// keepLog saves the strace log of an off-target run next to the shard files
// (at most three per process) for later inspection.
func (g *killRig) keepLog(work string) {
	out := os.Getenv("VERIF_OUT")
	if out == "" || g.kept >= 3 {
		return
	}
	g.kept++
	data, err := os.ReadFile(filepath.Join(work, "strace.log"))
	if err == nil {
		_ = os.WriteFile(fmt.Sprintf("%s.offtarget-%d.log", out, g.kept), data, 0o600)
	}
}

func clip(s string) (out string) {
	if len(s) > 70 {
		return s[:70] + "…"
	}

	return s
}

func TestVerifC13Kill(t *testing.T) {
	r := vrt.Start("C13")
	strace, err := exec.LookPath("strace")
	if err != nil {
		vrt.Fatalf("strace not found: %v", err)
	}
	exe, err := os.Executable()
	if err != nil {
		vrt.Fatalf("locating the test binary: %v", err)
	}
	g := &killRig{r: r, exe: exe, strace: strace, dry: map[string]*dryCounts{}}
	g.fillers = vrt.Pick(r, 150, 1200)
	fillerLines = g.fillers
	g.base, err = os.MkdirTemp(scratchRoot(t), "c13-kill-")
	if err != nil {
		vrt.Fatalf("creating scratch dir: %v", err)
	}
	variants := []string{variantTmpSame}
	// Another file system for TMPDIR: the unit's build directory when the
	// scratch is on tmpfs.
	if out := os.Getenv("VERIF_OUT"); out != "" && strings.HasPrefix(g.base, "/dev/shm") {
		g.other, err = os.MkdirTemp(filepath.Dir(out), "c13-kill-tmp-")
		if err == nil {
			variants = append(variants, variantTmpOther)
		}
	}
	cleanup := func() {
		if os.Getenv("C13_KEEP") != "" {
			return
		}
		_ = os.RemoveAll(g.base)
		if g.other != "" {
			_ = os.RemoveAll(g.other)
		}
	}
	r.Bound("list_filler_rules", g.fillers)
	r.Bound("kill_syscalls", strings.Join(killSyscalls, ","))
	r.Bound("tmpdir_variants", strings.Join(variants, ","))

	const part = "kill"
	var rc killCase
	if r.ReplayCase(part, &rc) {
		if rc.Variant == variantTmpOther && g.other == "" {
			vrt.Fatalf("replay needs a second file system for TMPDIR")
		}
		r.Eval()
		r.Report(part, rc, g.runKillCase(rc))
	} else if r.ShouldRun() {
		for _, v := range variants {
			d := g.dryRun(v)
			// Stability of the counts: a second dry run must agree.
			delete(g.dry, v)
			d2 := g.dryRun(v)
			if fmt.Sprint(d.n) != fmt.Sprint(d2.n) || fmt.Sprint(d.n0) != fmt.Sprint(d2.n0) {
				r.Note("variant %s: syscall counts differ between two dry runs: %v/%v vs %v/%v", v, d.n0, d.n, d2.n0, d2.n)
			}
			names := make([]string, 0, len(d.n))
			for name := range d.n {
				names = append(names, name)
			}
			sort.Strings(names)
			r.Bound("kill_points_"+v, fmt.Sprint(d.n))
			r.Bound("kill_points_total_"+v, d.total)
			stop := false
			// The complete run without a kill is a case of its own: the
			// directory and the restart are judged after it as well.
			if r.Mine() {
				c := killCase{Variant: v}
				r.Eval()
				fs := g.runKillCase(c)
				r.Sample(c)
				r.Report(part, c, fs)
			}
			for _, sys := range killSyscalls {
				for k := 1; k <= killMaxK; k++ {
					mine := r.Mine()
					limit := d.n[sys] + killSlack
					if d.n[sys] == 0 {
						limit = 1
					}
					if stop || !mine || k > limit {
						continue
					}
					if r.Expired() {
						stop = true
						r.Note("kill part stopped by internal deadline")

						continue
					}
					c := killCase{Variant: v, Sys: sys, K: k}
					r.Eval()
					fs := g.runKillCase(c)
					r.Sample(c)
					r.Report(part, c, fs)
				}
			}
		}
	}

	r.Finish()
	cleanup()
	os.Exit(0)
}
