//go:build verif

package dnsserver_test

// The constructor of the real forwarding handler for part forward of C08: it
// lives in the external test package because package forward imports package
// dnsserver.

import (
	"net/netip"
	"time"

	"github.com/AdguardTeam/AdGuardDNS/internal/dnsserver"
	"github.com/AdguardTeam/AdGuardDNS/internal/dnsserver/forward"
)

func init() {
	dnsserver.VerifC08NewForward = func(addr netip.AddrPort, network string, timeout time.Duration) (h dnsserver.Handler) {
		return forward.NewHandler(&forward.HandlerConfig{
			UpstreamsAddresses: []*forward.UpstreamPlainConfig{{
				Network: forward.Network(network),
				Address: addr,
				Timeout: timeout,
			}},
		})
	}
}
