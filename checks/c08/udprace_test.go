//go:build verif

package dnsserver

import (
	"context"
	"fmt"
	"io"
	"net"
	"os"
	"runtime"
	"runtime/debug"
	"syscall"
	"testing"
	"time"

	"github.com/AdguardTeam/AdGuardDNS/internal/dnsserver/zzverif/vrt"
	"github.com/AdguardTeam/AdGuardDNS/internal/dnsserver/zzverif/xsched"
	"github.com/miekg/dns"
)

// C08, unit "udp-race": the size limit of a UDP response is the one its OWN
// query advertised, also when the accept loop reads the next datagram while
// the workers of earlier ones have not run yet.  Two or three clients with
// different EDNS settings (none, 1232, 4096) ask for a name whose answer is
// larger than every limit but the last; every interleaving of the accept loop
// and the workers within the preemption bound.

type c08rConn struct {
	in      [][]byte
	from    []net.Addr
	written map[string][][]byte
	// failWrites is the number of writes that fail before writes succeed.
	failWrites int
}

func (c *c08rConn) ReadFrom(p []byte) (int, net.Addr, error) {
	if len(c.in) == 0 {
		return 0, nil, io.EOF
	}
	n := copy(p, c.in[0])
	a := c.from[0]
	c.in, c.from = c.in[1:], c.from[1:]

	return n, a, nil
}

func (c *c08rConn) WriteTo(p []byte, a net.Addr) (int, error) {
	if c.failWrites > 0 {
		c.failWrites--

		return 0, &net.OpError{Op: "write", Net: "udp", Err: syscall.EMSGSIZE}
	}
	c.written[a.String()] = append(c.written[a.String()], append([]byte{}, p...))

	return len(p), nil
}
func (c *c08rConn) Close() error                     { return nil }
func (c *c08rConn) LocalAddr() net.Addr              { return &net.UDPAddr{IP: net.IP{127, 0, 0, 1}, Port: 53} }
func (c *c08rConn) SetDeadline(time.Time) error      { return nil }
func (c *c08rConn) SetReadDeadline(time.Time) error  { return nil }
func (c *c08rConn) SetWriteDeadline(time.Time) error { return nil }

// c08rHandler answers every query with 64 A records (about 1 KB).
type c08rHandler struct{}

func (c08rHandler) ServeDNS(ctx context.Context, rw ResponseWriter, req *dns.Msg) error {
	resp := &dns.Msg{}
	resp.SetReply(req)
	for i := 0; i < 64; i++ {
		resp.Answer = append(resp.Answer, &dns.A{
			Hdr: dns.RR_Header{Name: req.Question[0].Name, Rrtype: dns.TypeA, Class: dns.ClassINET, Ttl: 60},
			A:   net.IP{10, 0, byte(i), 1},
		})
	}
	if opt := req.IsEdns0(); opt != nil {
		resp.SetEdns0(4096, opt.Do())
	}

	return rw.WriteMsg(ctx, req, resp)
}

// c08rLimits are the EDNS UDP sizes of the clients; 0 = no OPT record.
var c08rLimits = []uint16{0, 4096, 1232}

func c08rQuery(i int) (*dns.Msg, net.Addr, int) {
	m := &dns.Msg{}
	// All queries have the same wire length, so that a later datagram
	// overwrites an earlier one completely.
	m.SetQuestion(fmt.Sprintf("client-%d.example.", i), dns.TypeA)
	m.Id = uint16(0x1000 * (i + 1))
	limit := 512
	if sz := c08rLimits[i%len(c08rLimits)]; sz != 0 {
		m.SetEdns0(sz, false)
		limit = int(sz)
	}

	return m, &net.UDPAddr{IP: net.IP{192, 0, 2, byte(10 + i)}, Port: 4000 + i}, limit
}

type c08rEnv struct {
	conn  *c08rConn
	order []int
}

// c08rSetup prepares the server and the datagrams.  With fault set, the write
// of one earlier response fails first (the error path of the writer runs),
// before the clients of the scenario arrive.
func c08rSetup(order []int, fault bool, s *xsched.Sched) *c08rEnv {
	srv := NewServerDNS(ConfigDNS{ConfigBase: ConfigBase{Name: "verif", Addr: "127.0.0.1:0", Handler: c08rHandler{}}, MaxUDPRespSize: 4096})
	srv.started = true
	srv.workerPool.Release()
	env := &c08rEnv{conn: &c08rConn{written: map[string][][]byte{}}, order: order}
	if fault {
		m, a, _ := c08rQuery(3)
		b, _ := m.Pack()
		pre := &c08rConn{written: map[string][][]byte{}, in: [][]byte{b}, from: []net.Addr{a}, failWrites: 2}
		// The worker of this earlier exchange runs to its end right here (not
		// as a goroutine that could still be returning its buffer while the
		// tasks of the scenario start).
		xsched.SpawnHook = func(_ string, f func(), _ []any) { f() }
		_ = srv.acceptUDPMsg(context.Background(), pre)
		xsched.SpawnHook = nil
		srv.wg.Wait()
	}
	for _, i := range order {
		m, a, _ := c08rQuery(i)
		b, _ := m.Pack()
		env.conn.in = append(env.conn.in, b)
		env.conn.from = append(env.conn.from, a)
	}
	s.Go("accept-loop", func() {
		for range order {
			_ = srv.acceptUDPMsg(context.Background(), env.conn)
		}
	})

	return env
}

func c08rCheck(env *c08rEnv, x *xsched.Exec) []vrt.Finding {
	if x.Sched.Panicked != "" {
		return vrt.F("udp-race/panic", "%s", x.Sched.Panicked)
	}
	if x.Sched.Deadlock || x.Sched.LimitHit {
		return vrt.F("udp-race/deadlock", "blocked %v", x.Sched.Blocked)
	}
	for _, i := range env.order {
		q, a, limit := c08rQuery(i)
		ws := env.conn.written[a.String()]
		if len(ws) != 1 {
			return vrt.F("udp-race/client-not-answered-once", "client %d (%s) received %d responses\nschedule:\n%s", i, a, len(ws), x.Sched.Describe())
		}
		if len(ws[0]) > limit {
			return vrt.F("udp-race/size-exceeds-own-limit", "client %d advertised %d bytes (0 = no OPT: 512) and received a datagram of %d bytes: its response was sized by another client's query\nschedule:\n%s", i, limit, len(ws[0]), x.Sched.Describe())
		}
		m := &dns.Msg{}
		if err := m.Unpack(ws[0]); err != nil {
			return vrt.F("udp-race/undecodable-response", "client %d: %v", i, err)
		}
		if m.Id != q.Id || len(m.Question) != 1 || m.Question[0].Name != q.Question[0].Name {
			return vrt.F("udp-race/response-of-another-client", "client %d asked %s (id %#x) and received a response with id %#x for %v\nschedule:\n%s", i, q.Question[0].Name, q.Id, m.Id, m.Question, x.Sched.Describe())
		}
		if (m.IsEdns0() != nil) != (q.IsEdns0() != nil) {
			return vrt.F("udp-race/opt-presence-differs-from-own-query", "client %d: query has OPT %t, response has OPT %t\nschedule:\n%s", i, q.IsEdns0() != nil, m.IsEdns0() != nil, x.Sched.Describe())
		}
		full := len(m.Answer) == 64
		if !full && !m.Truncated {
			return vrt.F("udp-race/records-dropped-without-tc", "client %d (limit %d) received %d of 64 answer records without TC\nschedule:\n%s", i, limit, len(m.Answer), x.Sched.Describe())
		}
		if limit >= 4096 && !full {
			return vrt.F("udp-race/truncated-although-it-fits", "client %d advertised %d bytes and received a truncated response (%d records)\nschedule:\n%s", i, limit, len(m.Answer), x.Sched.Describe())
		}
	}

	return nil
}

type c08rCase struct {
	Order   []int `json:"clients_in_arrival_order"`
	Fault   bool  `json:"an_earlier_response_write_failed"`
	Choices []int `json:"choices"`
}

func TestVerifC08UDPRace(t *testing.T) {
	r := vrt.Start("C08")
	debug.SetGCPercent(-1)
	var rc c08rCase
	if r.ReplayCase("udp-race", &rc) {
		var env *c08rEnv
		x := xsched.Replay(rc.Choices, func(s *xsched.Sched) { env = c08rSetup(rc.Order, rc.Fault, s) })
		r.Eval()
		r.Report("udp-race", rc, c08rCheck(env, x))
	}
	if r.ShouldRun() {
		shard, nshards := r.NShards()
		execs := 0
		orders := [][]int{{0, 1}, {1, 0}, {0, 2}, {2, 0}, {1, 2}, {2, 1}, {0, 1, 2}, {1, 0, 2}, {2, 1, 0}}
		r.Bound("udp_race_preemptions", vrt.Pick(r, "2 datagrams: 3, 3 datagrams: 2", "2 datagrams: unbounded, 3 datagrams: 3"))
		r.Bound("udp_race_arrival_orders", len(orders))
		for oi2 := 0; oi2 < 2*len(orders); oi2++ {
			oi, fault := oi2/2, oi2%2 == 1
			order := orders[oi]
			if oi2%nshards != shard {
				continue
			}
			pre := vrt.Pick(r, 3, -1)
			if len(order) == 3 {
				pre = vrt.Pick(r, 2, 3)
			}
			var env *c08rEnv
			found := 0
			st := xsched.Explore(xsched.Config{MaxPreemptions: pre, MaxDeviations: 0, Stop: r.Expired},
				func(s *xsched.Sched) {
					if execs++; execs%2000 == 0 {
						runtime.GC()
					}
					env = c08rSetup(order, fault, s)
				},
				func(x *xsched.Exec) bool {
					r.Eval()
					r.Trans(len(x.Sched.Trace))
					fs := c08rCheck(env, x)
					r.Class(fmt.Sprintf("udp-race %d datagrams", len(order)))
					sizes := ""
					for _, i := range order {
						_, a, _ := c08rQuery(i)
						for _, w := range env.conn.written[a.String()] {
							sizes += fmt.Sprintf("%d:%d ", i, len(w))
						}
					}
					r.State(fmt.Sprintf("udp-race %v %v %s", order, fault, sizes))
					if len(fs) > 0 {
						r.Report("udp-race", c08rCase{Order: order, Fault: fault, Choices: x.Choices}, fs)
						found++
					}

					return found < 1
				})
			if st.Stopped {
				r.Note("udp race %v stopped by deadline after %d executions", order, st.Executions)
			}
		}
	}
	r.Finish()
	os.Exit(0)
}
