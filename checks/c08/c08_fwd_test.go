//go:build verif

package dnsserver

// C08, part forward: the write paths with the REAL forwarding handler
// (forward.Handler over forward.UpstreamPlain) between the server and a
// scripted upstream on loopback sockets.  The handler is constructed by the
// external test package (c08_fwdx_test.go), because package forward imports
// this package.
//
// What it adds over the scripted handler of the other parts: the request
// message given to ResponseWriter.WriteMsg is the one the real handler has had
// in its hands, so anything the handler does to it before the response is
// normalised (the client's limits are read from it at write time) shows in the
// bytes the client gets.  The oracle is the same and judges against what the
// client SENT.

import (
	"bytes"
	"context"
	"encoding/binary"
	"io"
	"net"
	"net/netip"
	"os"
	"sync"
	"testing"
	"time"

	"github.com/AdguardTeam/AdGuardDNS/internal/dnsserver/zzverif/vrt"
	"github.com/miekg/dns"
)

// VerifC08NewForward builds the real forwarding handler for one upstream.  It
// is set by the external test package.  network is "", "udp" or "tcp".
var VerifC08NewForward func(addr netip.AddrPort, network string, timeout time.Duration) (h Handler)

// c08Upstream is a scripted recursive resolver on one loopback port, UDP and
// TCP.  It answers every query with the scripted answer; over UDP it behaves
// like a well-behaved server: an answer larger than max(512, the UDP size of
// the query's OPT record) is replaced by an empty one with TC set.
type c08Upstream struct {
	pc *net.UDPConn
	ln *net.TCPListener

	mu     sync.Mutex
	answer *dns.Msg
	lastTC bool
}

func newC08Upstream() (u *c08Upstream) {
	ln, err := net.ListenTCP("tcp4", &net.TCPAddr{IP: net.IP{127, 0, 0, 1}})
	if err != nil {
		vrt.Fatalf("c08: listening on loopback tcp: %v", err)
	}
	pc, err := net.ListenUDP("udp4", &net.UDPAddr{IP: net.IP{127, 0, 0, 1}, Port: ln.Addr().(*net.TCPAddr).Port})
	if err != nil {
		vrt.Fatalf("c08: listening on loopback udp: %v", err)
	}
	u = &c08Upstream{pc: pc, ln: ln}
	go u.serveUDP()
	go u.serveTCP()

	return u
}

func (u *c08Upstream) addr() netip.AddrPort { return u.pc.LocalAddr().(*net.UDPAddr).AddrPort() }

func (u *c08Upstream) set(answer *dns.Msg) {
	u.mu.Lock()
	u.answer, u.lastTC = answer, false
	u.mu.Unlock()
}

// reply builds the answer to q.
func (u *c08Upstream) reply(q *dns.Msg, udp bool) (out []byte) {
	u.mu.Lock()
	ans := u.answer
	u.lastTC = false
	u.mu.Unlock()
	qopt := q.IsEdns0()
	if ans == nil {
		return nil
	}
	resp := c08Clone(ans)
	resp.Id = q.Id
	resp.Question = append([]dns.Question(nil), q.Question...)
	resp.Compress = true
	if qopt != nil {
		// The upstream's own OPT: its own buffer size, DO mirrored.
		o := &dns.OPT{Hdr: dns.RR_Header{Name: ".", Rrtype: dns.TypeOPT}}
		o.SetUDPSize(1232)
		if qopt.Do() {
			o.SetDo()
		}
		resp.Extra = append(resp.Extra, o)
	}
	out, err := resp.Pack()
	if err != nil {
		return nil
	}
	if udp {
		limit := 512
		if qopt != nil && int(qopt.UDPSize()) > limit {
			limit = int(qopt.UDPSize())
		}
		if len(out) > limit {
			tc := &dns.Msg{}
			tc.SetReply(q)
			tc.RecursionAvailable = true
			tc.Truncated = true
			if qopt != nil {
				tc.SetEdns0(1232, qopt.Do())
			}
			out, _ = tc.Pack()
			u.mu.Lock()
			u.lastTC = true
			u.mu.Unlock()
		}
	}

	return out
}

func (u *c08Upstream) serveUDP() {
	buf := make([]byte, 65535)
	for {
		n, from, err := u.pc.ReadFromUDP(buf)
		if err != nil {
			return
		}
		q := &dns.Msg{}
		if q.Unpack(buf[:n]) != nil || len(q.Question) != 1 {
			continue
		}
		if out := u.reply(q, true); out != nil {
			_, _ = u.pc.WriteToUDP(out, from)
		}
	}
}

func (u *c08Upstream) serveTCP() {
	for {
		conn, err := u.ln.Accept()
		if err != nil {
			return
		}
		go func() {
			defer conn.Close()
			for {
				var l uint16
				if binary.Read(conn, binary.BigEndian, &l) != nil {
					return
				}
				b := make([]byte, l)
				if _, err := io.ReadFull(conn, b); err != nil {
					return
				}
				q := &dns.Msg{}
				if q.Unpack(b) != nil || len(q.Question) != 1 {
					return
				}
				out := u.reply(q, false)
				if out == nil || len(out) > dns.MaxMsgSize {
					return
				}
				framed := make([]byte, 2+len(out))
				binary.BigEndian.PutUint16(framed, uint16(len(out)))
				copy(framed[2:], out)
				if _, err := conn.Write(framed); err != nil {
					return
				}
			}
		}()
	}
}

// c08FwdHandler wraps the real forwarding handler to record its verdict and
// whether it has changed the request message it was given.
type c08FwdHandler struct {
	next    Handler
	err     error
	mutated bool
}

// ServeDNS implements the [Handler] interface for *c08FwdHandler.
func (h *c08FwdHandler) ServeDNS(ctx context.Context, rw ResponseWriter, req *dns.Msg) (err error) {
	before, _ := req.Pack()
	err = h.next.ServeDNS(ctx, rw, req)
	after, _ := req.Pack()
	h.err = err
	h.mutated = !bytes.Equal(before, after)

	return err
}

// c08FwdCase is one execution of part forward.
type c08FwdCase struct {
	// Path is a write path name.
	Path string `json:"path"`

	// UpsNet is the network of the upstream: "" (UDP, then TCP when
	// truncated), "udp" or "tcp".
	UpsNet string `json:"ups_net"`

	// Shape and Size select the upstream's answer (shapes of c08Shapes).
	Shape int `json:"shape"`
	Size  int `json:"size"`

	// EDNS is the client's EDNS setting (index into c08EDNSSet).
	EDNS int `json:"edns"`

	// Cfg is the configured maximum UDP response size (plain UDP only).
	Cfg uint16 `json:"cfg"`

	ShapeName string `json:"shape_name"`
	EDNSName  string `json:"edns_name"`
}

func TestVerifC08Forward(t *testing.T) {
	r := vrt.Start("C08")
	if VerifC08NewForward == nil {
		vrt.Fatalf("c08: the forwarding handler constructor is not set")
	}
	c08InitPadSeeds()

	ups := newC08Upstream()
	rig := newC08Rig()
	upsNets := []string{"", "udp", "tcp"}
	fwd := map[string]*c08FwdHandler{}
	for _, nw := range upsNets {
		fwd[nw] = &c08FwdHandler{next: VerifC08NewForward(ups.addr(), nw, 30*time.Second)}
	}

	// Upstream answers: plain answers and a referral-like mix; sizes around
	// 512, the clients' advertised sizes, the forwarder's own UDP buffer
	// (4096) and above it (only reachable over TCP).
	shapes := []int{0, 2}
	sizes := vrt.Pick(r,
		[]int{300, 500, 513, 1221, 1233, 2440, 4080, 4200},
		[]int{40, 300, 490, 500, 501, 502, 511, 512, 513, 1200, 1210, 1221, 1222, 1232, 1233, 2440, 4000, 4074, 4080, 4085, 4086, 4096, 4097, 4200, 9000, 20000})
	// Client EDNS: none, 512, 1232, 4096, 65535, 1232+DO, 1232+padding,
	// 4096+everything.
	ednsIdx := []int{0, 4, 6, 7, 8, 9, 10, 13}
	cfgs := []uint16{512, 1232, 4096, 65535}
	r.Bound("forward_upstream_answer_sizes", len(sizes))
	r.Bound("forward_client_edns_settings", len(ednsIdx))
	r.Bound("forward_upstream_networks", len(upsNets))

	vrt.Part(r, "forward", func(emit func(c08FwdCase)) {
		for _, shape := range shapes {
			for _, size := range sizes {
				for _, edns := range ednsIdx {
					for _, nw := range upsNets {
						for _, p := range c08Paths {
							cs := cfgs[3:4]
							if p.HasCfg {
								cs = cfgs
							}
							for _, cfg := range cs {
								emit(c08FwdCase{
									Path: p.Name, UpsNet: nw, Shape: shape, Size: size, EDNS: edns, Cfg: cfg,
									ShapeName: c08Shapes[shape].Name, EDNSName: c08EDNSSet[edns].Name,
								})
							}
						}
					}
				}
			}
		}
	}, func(c c08FwdCase) []vrt.Finding {
		p, ok := c08PathByName[c.Path]
		if !ok {
			vrt.Fatalf("c08: unknown path %q", c.Path)
		}
		fh, ok := fwd[c.UpsNet]
		if !ok {
			vrt.Fatalf("c08: unknown upstream network %q", c.UpsNet)
		}
		e := c08EDNSSet[c.EDNS]
		b := c08BuildResp(c.Shape, c.Size)
		// What the client sent: the oracle never looks at the request object
		// the server and the handler have had in their hands.
		reqBytes, err := c08NewReq(e).Pack()
		if err != nil {
			vrt.Fatalf("c08: packing request: %v", err)
		}
		rig.handler.mode, rig.handler.next = "next", fh
		defer func() { rig.handler.mode, rig.handler.next = "write", nil }()

		cc := c08Case{
			Path: c.Path, Shape: c.Shape, Size: c.Size, EDNS: c.EDNS, Cfg: c.Cfg, Pad: 1,
			ShapeName: c.ShapeName + " via forward(upstream " + c08UpsName(c.UpsNet) + ")", EDNSName: c.EDNSName,
		}
		var obs c08Obs
		h := b.msg
		// A forwarding error (e.g. a datagram lost on the loaded machine) is
		// not a verdict: try again; if it persists, judge the server-made
		// response against an empty handler response.
		for attempt := 0; attempt < 3; attempt++ {
			ups.set(b.msg)
			fh.err, fh.mutated = nil, false
			rig.metrics.panicked = ""
			c08SeedRand(cc.Pad)
			obs = p.run(rig, cc, reqBytes)
			obs.Panicked = rig.metrics.panicked
			r.Trans(1)
			if fh.err == nil {
				break
			}
			r.Count("forward-error-retries", 1)
		}
		if fh.err != nil {
			r.Count("forward-errors", 1)
			h = &dns.Msg{}
			h.SetReply(c08NewReq(e))
		} else if ups.relayedTC() {
			// A UDP-only upstream has cut the answer itself: what the
			// handler got is an empty answer with TC set.
			h = &dns.Msg{}
			h.SetReply(c08NewReq(e))
			h.Truncated = true
		}
		if fh.mutated {
			// Not a clause of the statement by itself; its observable
			// consequences are judged below.
			r.Count("hint:handler-changed-the-request-message", 1)
		}

		return c08Oracle(r, p.c08Transport, cc, e, h, b.size, obs)
	})

	r.Finish()
	os.Exit(0)
}

func c08UpsName(nw string) string {
	if nw == "" {
		return "any"
	}

	return nw
}

// relayedTC reports whether the last thing the upstream has sent was the empty
// answer with TC set (a UDP-only upstream that had to cut the answer), so that
// the handler's response is that and not the scripted answer.
func (u *c08Upstream) relayedTC() bool {
	u.mu.Lock()
	defer u.mu.Unlock()

	return u.lastTC
}
