//go:build verif

package dnsserver

// C08 — responses respect the transport's size limit and are truncated safely.
//
// This file holds the alphabets (request EDNS settings, handler response
// shapes and sizes), the oracle that restates the property statement clause by
// clause, and the test function.  The drivers of the real write paths are in
// c08_paths_test.go.

import (
	"fmt"
	"math/rand"
	"os"
	"testing"

	"github.com/AdguardTeam/AdGuardDNS/internal/dnsserver/zzverif/vdns"
	"github.com/AdguardTeam/AdGuardDNS/internal/dnsserver/zzverif/vrt"
	"github.com/miekg/dns"
)

// ---------------------------------------------------------------------------
// Request alphabet
// ---------------------------------------------------------------------------

// c08EDNS is one request EDNS setting.
type c08EDNS struct {
	Name      string
	Present   bool
	UDPSize   uint16
	DO        bool
	Padding   bool
	KeepAlive bool
	NSID      bool
	Version   uint8
}

// c08EDNSSet is the request EDNS alphabet.  The index is part of the case.
var c08EDNSSet = []c08EDNS{
	{Name: "absent"},
	{Name: "udp0", Present: true, UDPSize: 0},
	{Name: "udp100", Present: true, UDPSize: 100},
	{Name: "udp511", Present: true, UDPSize: 511},
	{Name: "udp512", Present: true, UDPSize: 512},
	{Name: "udp513", Present: true, UDPSize: 513},
	{Name: "udp1232", Present: true, UDPSize: 1232},
	{Name: "udp4096", Present: true, UDPSize: 4096},
	{Name: "udp65535", Present: true, UDPSize: 65535},
	{Name: "udp1232+do", Present: true, UDPSize: 1232, DO: true},
	{Name: "udp1232+pad", Present: true, UDPSize: 1232, Padding: true},
	{Name: "udp1232+ka", Present: true, UDPSize: 1232, KeepAlive: true},
	{Name: "udp1232+nsid", Present: true, UDPSize: 1232, NSID: true},
	{Name: "udp4096+all", Present: true, UDPSize: 4096, DO: true, Padding: true, KeepAlive: true, NSID: true},
	{Name: "udp512+pad+ka", Present: true, UDPSize: 512, Padding: true, KeepAlive: true},
	{Name: "udp65535+pad+ka", Present: true, UDPSize: 65535, Padding: true, KeepAlive: true},
	{Name: "udp65535+pad", Present: true, UDPSize: 65535, Padding: true},
	{Name: "udp1232+v1", Present: true, UDPSize: 1232, Version: 1},
	{Name: "udp512+do", Present: true, UDPSize: 512, DO: true},
}

const c08QName = "host.example.org."

// c08NewReq builds the client's query for an EDNS setting.
func c08NewReq(e c08EDNS) (req *dns.Msg) {
	req = vdns.NewReq(0x1234, c08QName, dns.TypeA, dns.ClassINET)
	if !e.Present {
		return req
	}

	opt := &dns.OPT{Hdr: dns.RR_Header{Name: ".", Rrtype: dns.TypeOPT}}
	opt.SetUDPSize(e.UDPSize)
	opt.SetVersion(e.Version)
	if e.DO {
		opt.SetDo()
	}
	if e.NSID {
		opt.Option = append(opt.Option, &dns.EDNS0_NSID{Code: dns.EDNS0NSID})
	}
	if e.KeepAlive {
		opt.Option = append(opt.Option, &dns.EDNS0_TCP_KEEPALIVE{Code: dns.EDNS0TCPKEEPALIVE})
	}
	if e.Padding {
		opt.Option = append(opt.Option, &dns.EDNS0_PADDING{Padding: make([]byte, 8)})
	}
	req.Extra = append(req.Extra, opt)

	return req
}

// ---------------------------------------------------------------------------
// Handler response alphabet
// ---------------------------------------------------------------------------

// Sections filler records may go to.
const (
	c08SecAn = iota
	c08SecNs
	c08SecEx
)

// c08Shape is one handler response shape.
type c08Shape struct {
	Name string

	// Fill lists the sections filler records are distributed over, round
	// robin.
	Fill []int

	// Mixed makes the filler records of mixed types and owner names instead
	// of fixed-size ones.
	Mixed bool

	// OPT selects the OPT record of the handler response: "" none, "clean",
	// "stale", "padka" (padding and keep-alive options present), "first"
	// (clean OPT at the first position of the additional section).
	OPT string

	// NoAnswer makes an NXDOMAIN response with an SOA in the authority
	// section and no answers.
	NoAnswer bool

	// OneAnswer adds a single fixed answer (used when the filler does not go
	// to the answer section).
	OneAnswer bool

	// TC presets the TC bit in the handler response.
	TC bool

	// TSIG appends a TSIG record as the last additional record.
	TSIG bool
}

// c08Shapes is the response shape alphabet.  The index is part of the case.
var c08Shapes = []c08Shape{
	{Name: "an", Fill: []int{c08SecAn}},
	{Name: "an+ns", Fill: []int{c08SecAn, c08SecNs}},
	{Name: "an+ns+ex", Fill: []int{c08SecAn, c08SecNs, c08SecEx}},
	{Name: "an+opt", Fill: []int{c08SecAn}, OPT: "clean"},
	{Name: "an+ns+ex+opt-stale", Fill: []int{c08SecAn, c08SecNs, c08SecEx}, OPT: "stale"},
	{Name: "an+opt-padka", Fill: []int{c08SecAn}, OPT: "padka"},
	{Name: "nxdomain-ns", Fill: []int{c08SecNs}, NoAnswer: true},
	{Name: "an1+ex", Fill: []int{c08SecEx}, OneAnswer: true},
	{Name: "mixed", Fill: []int{c08SecAn, c08SecNs, c08SecEx}, Mixed: true},
	{Name: "an+tc-preset", Fill: []int{c08SecAn}, TC: true},
	{Name: "an+ex+opt-first", Fill: []int{c08SecAn, c08SecEx}, OPT: "first"},
}

// c08ShapeTSIG is the index of the optional TSIG shape, appended by init so
// that the indexes above stay stable.
var c08ShapeTSIG int

func init() {
	c08ShapeTSIG = len(c08Shapes)
	c08Shapes = append(c08Shapes, c08Shape{Name: "an+tsig", Fill: []int{c08SecAn}, TSIG: true})

	// Responses that reach the write path with TC already set (e.g. a
	// truncated upstream reply relayed as is) and whose bulk is NOT in the
	// answer section: clearing the answers alone does not make them fit.
	c08Shapes = append(c08Shapes,
		c08Shape{Name: "ns+ex+tc-preset", Fill: []int{c08SecNs, c08SecEx}, TC: true},
		c08Shape{Name: "an+ns+ex+tc-preset", Fill: []int{c08SecAn, c08SecNs, c08SecEx}, TC: true},
		c08Shape{Name: "ns+tc-preset+opt", Fill: []int{c08SecNs}, TC: true, OPT: "clean"},
		c08Shape{Name: "an1+ex+tc-preset+opt-stale", Fill: []int{c08SecEx}, OneAnswer: true, TC: true, OPT: "stale"},
	)
}

// c08Filler returns the i-th filler record for section sec.
func c08Filler(sh c08Shape, sec, i int) (rr dns.RR) {
	hdr := func(name string, t uint16) dns.RR_Header {
		return dns.RR_Header{Name: name, Rrtype: t, Class: dns.ClassINET, Ttl: 300}
	}
	ip4 := []byte{10, byte(i >> 16), byte(i >> 8), byte(i)}
	host := fmt.Sprintf("n%05d.example.org.", i)
	if sh.Mixed {
		owner := c08QName
		if sec != c08SecAn || i%3 == 0 {
			owner = fmt.Sprintf("m%d.sub%d.example.org.", i%97, i%7)
		}
		switch i % 6 {
		case 0:
			return &dns.CNAME{Hdr: hdr(owner, dns.TypeCNAME), Target: fmt.Sprintf("c%d.cdn.example.net.", i%53)}
		case 1:
			return &dns.MX{Hdr: hdr(owner, dns.TypeMX), Preference: uint16(i), Mx: fmt.Sprintf("mx%d.example.org.", i%11)}
		case 2:
			return &dns.SRV{Hdr: hdr(owner, dns.TypeSRV), Priority: 1, Weight: 2, Port: 443, Target: fmt.Sprintf("srv%d.example.org.", i%5)}
		case 3:
			return &dns.TXT{Hdr: hdr(owner, dns.TypeTXT), Txt: []string{fmt.Sprintf("v=verif %d", i), "x"}}
		case 4:
			return &dns.AAAA{Hdr: hdr(owner, dns.TypeAAAA), AAAA: append([]byte{0x20, 0x01, 0x0d, 0xb8, 0, 0, 0, 0, 0, 0, 0, 0}, ip4...)}
		default:
			return &dns.A{Hdr: hdr(owner, dns.TypeA), A: ip4}
		}
	}
	switch sec {
	case c08SecAn:
		return &dns.A{Hdr: hdr(c08QName, dns.TypeA), A: ip4}
	case c08SecNs:
		return &dns.NS{Hdr: hdr("example.org.", dns.TypeNS), Ns: host}
	default:
		return &dns.A{Hdr: hdr(host, dns.TypeA), A: ip4}
	}
}

// c08HandlerOPT returns the handler's OPT record for a shape, or nil.
func c08HandlerOPT(kind string) (opt *dns.OPT) {
	if kind == "" {
		return nil
	}
	opt = &dns.OPT{Hdr: dns.RR_Header{Name: ".", Rrtype: dns.TypeOPT}}
	switch kind {
	case "clean", "first":
		opt.SetUDPSize(4096)
	case "stale":
		// What an upstream might have put there for somebody else: another
		// UDP size, a version, DO, extended rcode and Z bits, options.
		opt.SetUDPSize(512)
		opt.Hdr.Ttl = 0x01017fff
		opt.SetVersion(1)
		opt.SetDo()
		opt.Option = append(opt.Option,
			&dns.EDNS0_NSID{Code: dns.EDNS0NSID, Nsid: "757073747265616d2d31"},
			&dns.EDNS0_COOKIE{Code: dns.EDNS0COOKIE, Cookie: "0011223344556677"},
			&dns.EDNS0_EDE{InfoCode: dns.ExtendedErrorCodeStaleAnswer, ExtraText: "stale"},
		)
	case "padka":
		opt.SetUDPSize(1232)
		opt.Option = append(opt.Option,
			&dns.EDNS0_PADDING{Padding: make([]byte, 16)},
			&dns.EDNS0_TCP_KEEPALIVE{Code: dns.EDNS0TCPKEEPALIVE, Timeout: 999},
		)
	default:
		panic("c08: bad opt kind " + kind)
	}

	return opt
}

// c08Assemble builds the handler response of a shape with k filler records
// and a TXT pad record of txtLen rdata bytes (0 = none).
func c08Assemble(req *dns.Msg, sh c08Shape, k, txtLen int) (m *dns.Msg) {
	m = &dns.Msg{}
	m.SetReply(req)
	m.RecursionAvailable = true
	m.Compress = true
	m.Truncated = sh.TC
	if sh.NoAnswer {
		m.Rcode = dns.RcodeNameError
		m.Ns = append(m.Ns, &dns.SOA{
			Hdr: dns.RR_Header{Name: "example.org.", Rrtype: dns.TypeSOA, Class: dns.ClassINET, Ttl: 300},
			Ns:  "ns.example.org.", Mbox: "root.example.org.", Serial: 1, Refresh: 2, Retry: 3, Expire: 4, Minttl: 5,
		})
	}
	if sh.OneAnswer {
		m.Answer = append(m.Answer, &dns.A{
			Hdr: dns.RR_Header{Name: c08QName, Rrtype: dns.TypeA, Class: dns.ClassINET, Ttl: 300},
			A:   []byte{192, 0, 2, 1},
		})
	}
	if sh.OPT == "first" {
		m.Extra = append(m.Extra, c08HandlerOPT(sh.OPT))
	}
	secs := [3][]dns.RR{m.Answer, m.Ns, m.Extra}
	for i := 0; i < k; i++ {
		sec := sh.Fill[i%len(sh.Fill)]
		secs[sec] = append(secs[sec], c08Filler(sh, sec, i))
	}
	if txtLen > 0 {
		// rdata of txtLen bytes: character strings of <= 255 bytes, each
		// with a length byte.
		var txt []string
		left := txtLen
		for left > 0 {
			n := left - 1
			if n > 255 {
				n = 255
			}
			b := make([]byte, n)
			for j := range b {
				b[j] = 'x'
			}
			txt = append(txt, string(b))
			left -= n + 1
		}
		sec := sh.Fill[0]
		secs[sec] = append(secs[sec], &dns.TXT{
			Hdr: dns.RR_Header{Name: c08QName, Rrtype: dns.TypeTXT, Class: dns.ClassINET, Ttl: 300},
			Txt: txt,
		})
	}
	m.Answer, m.Ns, m.Extra = secs[0], secs[1], secs[2]
	if sh.OPT != "" && sh.OPT != "first" {
		m.Extra = append(m.Extra, c08HandlerOPT(sh.OPT))
	}
	if sh.TSIG {
		m.Extra = append(m.Extra, &dns.TSIG{
			Hdr:        dns.RR_Header{Name: "key.example.", Rrtype: dns.TypeTSIG, Class: dns.ClassANY},
			Algorithm:  dns.HmacSHA256,
			TimeSigned: 946684800, Fudge: 300,
			MACSize: 32, MAC: "00112233445566778899aabbccddeeff00112233445566778899aabbccddeeff",
			OrigId: req.Id,
		})
	}

	return m
}

// c08PackedLen returns the packed length of m, or -1.
func c08PackedLen(m *dns.Msg) (n int) {
	b, err := m.Pack()
	if err != nil {
		return -1
	}

	return len(b)
}

// c08Built is a handler response together with its packed size.
type c08Built struct {
	msg  *dns.Msg
	size int
}

var c08BuildCache = map[[2]int]c08Built{}

// c08BuildResp returns the handler response of shape whose compressed packed
// size is as close to size as the shape allows (exact when size is at least
// the shape's minimum plus 13 bytes).  The result must be copied before use.
func c08BuildResp(shape, size int) (b c08Built) {
	key := [2]int{shape, size}
	if b, ok := c08BuildCache[key]; ok {
		return b
	}
	if len(c08BuildCache) > 64 {
		c08BuildCache = map[[2]int]c08Built{}
	}
	sh := c08Shapes[shape]
	req := c08NewReq(c08EDNSSet[0])

	// The largest number of filler records that leaves room for the TXT pad
	// record (>= 13 bytes) below size.
	lo, hi := 0, size/12+2
	for lo < hi {
		mid := (lo + hi + 1) / 2
		if n := c08PackedLen(c08Assemble(req, sh, mid, 0)); n >= 0 && n <= size-13 {
			lo = mid
		} else {
			hi = mid - 1
		}
	}
	base := c08PackedLen(c08Assemble(req, sh, lo, 0))
	txt := 0
	if rest := size - base; rest >= 13 {
		txt = rest - 12
	}
	m := c08Assemble(req, sh, lo, txt)
	b = c08Built{msg: m, size: c08PackedLen(m)}
	c08BuildCache[key] = b

	return b
}

// ---------------------------------------------------------------------------
// Transports
// ---------------------------------------------------------------------------

// c08Transport describes what the statement says about one transport.
type c08Transport struct {
	// Name is used in finding keys and classes.
	Name string

	// Datagram is true for UDP transports (plain and DNSCrypt over UDP): the
	// max(512, min(advertised, configured)) clause applies.  Otherwise the
	// 65535 clause applies.
	Datagram bool

	// Encrypted is true for DoT, DoH, DoQ and DNSCrypt.
	Encrypted bool

	// HasCfg is true when the transport has a configured maximum.
	HasCfg bool

	// PadEnum is true when the padding length drawn by the code is an
	// enumerated input for this transport (DoT, DoQ, DoH).  It only widens
	// the enumeration and is never used by the oracle.
	PadEnum bool

	// Direct is true for the normalize() seam: stream size is not checked
	// there, because the size guard of stream transports sits behind it.
	Direct bool
}

// c08PadEnumerated reports whether the padding length must be enumerated for
// a case.
func c08PadEnumerated(t c08Transport, e c08EDNS) bool { return t.PadEnum && e.Present && e.Padding }

// ---------------------------------------------------------------------------
// Case, observation, oracle
// ---------------------------------------------------------------------------

// c08Case fully determines one execution.
type c08Case struct {
	// Path is the seam: "norm:<network>/<proto>" for normalize() called
	// directly, or a write path name.
	Path string `json:"path"`

	Shape int `json:"shape"`
	Size  int `json:"size"`
	EDNS  int `json:"edns"`

	// Cfg is the configured maximum UDP response size (plain UDP only).
	Cfg uint16 `json:"cfg"`

	// Pad is the padding length the code's random source is forced to
	// choose (1..31), 0 when irrelevant.
	Pad int `json:"pad"`

	// Behave is empty for a handler that writes the scripted response (parts
	// normalize and write).  In part server-made it says why the server has
	// to make up a response itself: "silent" (the handler returns nil without
	// writing), "error" (the handler returns an error without writing), "qr"
	// (the query has the QR bit set and is ignored), "notimp" (opcode the
	// server rejects with NOTIMP), "formerr" (two questions, rejected with
	// FORMERR).
	Behave string `json:"behave,omitempty"`

	// Names only for readers of replay files.
	ShapeName string `json:"shape_name"`
	EDNSName  string `json:"edns_name"`
}

// c08Obs is what the client receives.
type c08Obs struct {
	// Sent is false if no DNS message reached the client.
	Sent bool

	// Wire is the DNS message as sent (stream length prefix removed).
	Wire []byte

	// Why explains Sent == false ("write-error", "conn-closed", "http-500"…).
	Why string

	// Panicked is the panic value reported to the metrics listener, if any.
	Panicked string
}

// c08PadSeeds[p] is a math/rand seed after which rand.Intn(31)+1 == p.
var c08PadSeeds [responsePaddingMaxSize]int64

func c08InitPadSeeds() {
	found := 0
	for s := int64(1); found < responsePaddingMaxSize-1; s++ {
		rand.Seed(s)
		p := rand.Intn(responsePaddingMaxSize-1) + 1
		if c08PadSeeds[p] == 0 {
			c08PadSeeds[p] = s
			found++
		}
		if s > 1_000_000 {
			vrt.Fatalf("c08: cannot find seeds for all padding lengths")
		}
	}
	// rand.Seed must really make the source deterministic.
	for round := 0; round < 2; round++ {
		for p := 1; p < responsePaddingMaxSize; p++ {
			rand.Seed(c08PadSeeds[p])
			if got := rand.Intn(responsePaddingMaxSize-1) + 1; got != p {
				vrt.Fatalf("c08: math/rand is not deterministic after Seed: want %d, got %d", p, got)
			}
		}
	}
}

// c08SeedRand makes the next padding length chosen by the code equal to pad.
func c08SeedRand(pad int) {
	if pad <= 0 || pad >= responsePaddingMaxSize {
		rand.Seed(1)

		return
	}
	rand.Seed(c08PadSeeds[pad])
}

func c08Count(rrs []dns.RR) (n int) {
	for _, rr := range rrs {
		if rr != nil && rr.Header().Rrtype != dns.TypeOPT {
			n++
		}
	}

	return n
}

func c08Opts(m *dns.Msg) (opts []*dns.OPT) {
	for _, rr := range m.Extra {
		if o, ok := rr.(*dns.OPT); ok {
			opts = append(opts, o)
		}
	}

	return opts
}

func c08HasOption(opt *dns.OPT, code uint16) bool {
	if opt == nil {
		return false
	}
	for _, o := range opt.Option {
		if o.Option() == code {
			return true
		}
	}

	return false
}

// c08Oracle restates the statement of C08 on one observation.  req is the
// client's query as built by the harness, h an untouched copy of the handler's
// response.
func c08Oracle(
	r *vrt.Run,
	t c08Transport,
	c c08Case,
	e c08EDNS,
	h *dns.Msg,
	hsize int,
	obs c08Obs,
) (fs []vrt.Finding) {
	what := fmt.Sprintf("%s shape=%s handler-size=%d edns=%s cfg=%d pad=%d", c.Path, c.ShapeName, hsize, e.Name, c.Cfg, c.Pad)
	cls := t.Name
	// optSfx gives the OPT clauses a signature of their own, per transport,
	// for the responses the server makes up itself.
	optSfx := ""
	if c.Behave != "" {
		what = fmt.Sprintf("%s server-made response (%s) edns=%s cfg=%d pad=%d", c.Path, c.Behave, e.Name, c.Cfg, c.Pad)
		cls = t.Name + " " + c.Behave
		optSfx = ":server-made:" + t.Name
	}
	if obs.Panicked != "" {
		r.Count("hint:panic-recovered", 1)
	}
	if !obs.Sent {
		// The statement bounds what is sent; it does not demand that
		// something is.
		r.Class(cls + " nothing-sent:" + obs.Why)
		r.State(cls + "|" + e.Name + "|nothing|" + obs.Why)

		return nil
	}

	n := len(obs.Wire)

	// Same clauses, separate structural signature when the handler's response
	// ends with a TSIG record (miekg's Truncate leaves such messages alone).
	sfx := ""
	if h.IsTsig() != nil {
		sfx = ":tsig-response"
	}

	// Clause 1: size limit.
	if t.Datagram {
		adv := 0
		if e.Present {
			adv = int(e.UDPSize)
		}
		cfg := dns.MaxMsgSize
		if t.HasCfg {
			cfg = int(c.Cfg)
		}
		limit := max(512, min(adv, cfg))
		if n > limit {
			fs = append(fs, vrt.F(t.Name+"/size-exceeds-limit"+sfx,
				"%s: %d bytes on the wire, limit max(512, min(advertised %d, configured %d)) = %d", what, n, adv, cfg, limit)...)
		}
	} else if !t.Direct && n > dns.MaxMsgSize {
		fs = append(fs, vrt.F(t.Name+"/size-exceeds-limit"+sfx,
			"%s: %d bytes sent over a stream transport, limit 65535", what, n)...)
	}

	out := &dns.Msg{}
	if err := out.Unpack(obs.Wire); err != nil {
		if n > dns.MaxMsgSize {
			// Already reported by the size clause; nothing else to decode.
			r.Class(cls + " oversized-undecodable")

			return fs
		}
		fs = append(fs, vrt.F(t.Name+"/undecodable", "%s: %d bytes sent do not unpack: %v", what, n, err)...)
		r.Class(cls + " undecodable")

		return fs
	}

	// Clause 2: dropped records => TC and empty answer.
	dropped := c08Count(out.Answer) < c08Count(h.Answer) ||
		c08Count(out.Ns) < c08Count(h.Ns) ||
		c08Count(out.Extra) < c08Count(h.Extra)
	if dropped {
		if !out.Truncated {
			fs = append(fs, vrt.F(t.Name+"/dropped-without-tc"+sfx,
				"%s: records dropped (an %d->%d ns %d->%d ex %d->%d) but TC is not set (rcode %s)", what,
				c08Count(h.Answer), c08Count(out.Answer), c08Count(h.Ns), c08Count(out.Ns), c08Count(h.Extra), c08Count(out.Extra), dns.RcodeToString[out.Rcode])...)
		}
		if len(out.Answer) != 0 {
			fs = append(fs, vrt.F(t.Name+"/dropped-answer-not-empty"+sfx,
				"%s: records dropped (an %d->%d ns %d->%d ex %d->%d) but %d answers are still sent", what,
				c08Count(h.Answer), c08Count(out.Answer), c08Count(h.Ns), c08Count(out.Ns), c08Count(h.Extra), c08Count(out.Extra), len(out.Answer))...)
		}
	}

	// Clause 3: OPT echo.
	opts := c08Opts(out)
	var opt *dns.OPT
	if len(opts) > 0 {
		opt = opts[0]
	}
	if e.Present {
		switch {
		case len(opts) == 0:
			fs = append(fs, vrt.F("opt/missing"+optSfx, "%s: query carried OPT, response has none", what)...)
		case len(opts) > 1:
			fs = append(fs, vrt.F("opt/duplicated"+optSfx, "%s: response carries %d OPT records", what, len(opts))...)
		default:
			if opt.UDPSize() != e.UDPSize {
				fs = append(fs, vrt.F("opt/udp-size-not-echoed"+optSfx,
					"%s: client's UDP size %d, response OPT says %d (handler response had OPT: %v)", what, e.UDPSize, opt.UDPSize(), h.IsEdns0() != nil)...)
			}
			if opt.Version() != 0 {
				fs = append(fs, vrt.F("opt/version-not-zero"+optSfx, "%s: response OPT version %d", what, opt.Version())...)
			}
			if opt.Do() != e.DO {
				// Not demanded by the statement.
				r.Count("hint:do-bit-not-mirrored", 1)
			}
		}
	} else if len(opts) > 0 {
		// The statement is silent about queries without OPT.
		r.Count("hint:opt-returned-to-non-edns-client", 1)
	}

	// Clause 4: padding only on encrypted transports and only when asked.
	// Clause 5: keep-alive only to a client that sent it.
	//
	// An option that the handler's own OPT record already carried and that is
	// relayed to a client that may not get it is the same clause, but a
	// different structural signature (nothing was added by the write path;
	// the handler's OPT was not cleaned).
	hopt := h.IsEdns0()
	if c08HasOption(opt, dns.EDNS0PADDING) {
		plain := !t.Encrypted
		unasked := !(e.Present && e.Padding)
		switch {
		case !plain && !unasked:
			// Fine.
		case c08HasOption(hopt, dns.EDNS0PADDING):
			fs = append(fs, vrt.F("padding/handler-supplied-option-relayed",
				"%s: the padding option of the handler's OPT reaches the client (plain transport: %v, client sent padding: %v)", what, plain, !unasked)...)
		default:
			if plain {
				fs = append(fs, vrt.F("padding/on-plain-transport", "%s: padding option in a response over a plain transport", what)...)
			}
			if unasked {
				fs = append(fs, vrt.F("padding/client-did-not-send", "%s: padding option added although the client sent none", what)...)
			}
		}
	}
	if c08HasOption(opt, dns.EDNS0TCPKEEPALIVE) && !(e.Present && e.KeepAlive) {
		if c08HasOption(hopt, dns.EDNS0TCPKEEPALIVE) {
			fs = append(fs, vrt.F("keepalive/handler-supplied-option-relayed",
				"%s: the tcp-keepalive option of the handler's OPT is returned to a client that sent none", what)...)
		} else {
			fs = append(fs, vrt.F("keepalive/client-did-not-send", "%s: tcp-keepalive option returned although the client sent none", what)...)
		}
	}

	// Classes and states.
	outcome := "intact"
	if dropped {
		outcome = "truncated"
		if out.Rcode == dns.RcodeServerFailure && h.Rcode != dns.RcodeServerFailure {
			outcome = "servfail-instead"
		}
	}
	optc := "noopt"
	if opt != nil {
		optc = "opt"
		if c08HasOption(opt, dns.EDNS0PADDING) {
			optc += "+pad"
		}
		if c08HasOption(opt, dns.EDNS0TCPKEEPALIVE) {
			optc += "+ka"
		}
	}
	r.Class(cls + " " + outcome + " " + optc)
	r.State(fmt.Sprintf("%s|%s|%d|%d|%v|%d/%d/%d|%s", cls, e.Name, c.Cfg, n, out.Truncated,
		len(out.Answer), len(out.Ns), len(out.Extra), vdns.OPTString(out)))

	return fs
}

// ---------------------------------------------------------------------------
// Test
// ---------------------------------------------------------------------------

// c08NormTransports are the (network, proto) pairs normalize() is called with
// directly.
type c08Norm struct {
	c08Transport
	network Network
	proto   Protocol
}

func c08NormSeams() (seams []c08Norm) {
	// Only the (network, protocol) pairs the servers really call normalize
	// with: plain UDP, DNSCrypt over UDP, and normalizeTCP / DNSCrypt over TCP.
	pairs := []struct {
		nw Network
		p  Protocol
	}{
		{NetworkUDP, ProtoDNS}, {NetworkUDP, ProtoDNSCrypt},
		{NetworkTCP, ProtoDNS}, {NetworkTCP, ProtoDoT}, {NetworkTCP, ProtoDoQ}, {NetworkTCP, ProtoDoH},
		{NetworkTCP, ProtoDNSCrypt},
	}
	for _, pr := range pairs {
		seams = append(seams, c08Norm{
			c08Transport: c08Transport{
				Name:      "norm:" + string(pr.nw) + "/" + pr.p.String(),
				Datagram:  pr.nw == NetworkUDP,
				Encrypted: pr.p != ProtoDNS,
				// Only the plain UDP server passes a configured maximum;
				// DNSCrypt passes dns.MaxMsgSize.
				HasCfg:  pr.nw == NetworkUDP && pr.p == ProtoDNS,
				PadEnum: pr.p == ProtoDoT || pr.p == ProtoDoQ || pr.p == ProtoDoH,
				Direct:  true,
			},
			network: pr.nw,
			proto:   pr.p,
		})
	}

	return seams
}

func TestVerifC08(t *testing.T) {
	r := vrt.Start("C08")
	c08InitPadSeeds()

	// Sizes of the handler response (compressed, packed, with its own OPT).
	quickSizes := []int{40, 300, 490, 500, 501, 502, 511, 512, 513, 1221, 1222, 1232, 1233,
		4085, 4096, 4097, 16384, 65490, 65524, 65535, 65536, 70000}
	sizes := quickSizes
	if r.Thorough() {
		sizes = nil
		seen := map[int]bool{}
		add := func(n int) {
			if !seen[n] {
				seen[n] = true
				sizes = append(sizes, n)
			}
		}
		for _, n := range quickSizes {
			add(n)
		}
		for n := 440; n <= 560; n++ {
			add(n)
		}
		for n := 1190; n <= 1240; n++ {
			add(n)
		}
		for n := 65470; n <= 65560; n++ {
			add(n)
		}
	}
	cfgs := []uint16{512, 1232, 4096, 65535, 0}
	r.Bound("handler_response_sizes", len(sizes))
	r.Bound("response_shapes", len(c08Shapes))
	r.Bound("request_edns_settings", len(c08EDNSSet))
	r.Bound("configured_maxima", len(cfgs))
	r.Bound("size_ranges", vrt.Pick(r, "22 boundary sizes 40..70000", "22 boundary sizes + every size in 440..560, 1190..1240, 65470..65560"))

	// pads returns the padding lengths to force for a case: the extremes (and
	// the middle); in the thorough tier all 31 at the boundary sizes next to
	// 64 KiB (the byte-by-byte size sweep covers the sums elsewhere).
	allPadSizes := map[int]bool{65490: true, 65524: true, 65535: true, 65536: true}
	pads := func(tr c08Transport, e c08EDNS, size int) []int {
		if !c08PadEnumerated(tr, e) {
			return []int{0}
		}
		if r.Thorough() && allPadSizes[size] {
			all := make([]int, 0, responsePaddingMaxSize-1)
			for p := 1; p < responsePaddingMaxSize; p++ {
				all = append(all, p)
			}

			return all
		}

		return vrt.Pick(r, []int{1, 31}, []int{1, 16, 31})
	}

	// cfgsFor returns the configured maxima to run a case with.
	cfgsFor := func(tr c08Transport, size int) []uint16 {
		switch {
		case !tr.HasCfg:
			return cfgs[3:4]
		case size >= 16384:
			// A huge response is cut down in the same way whatever the
			// maximum; keep the two extremes.
			return []uint16{512, 65535}
		default:
			return cfgs
		}
	}

	mkCase := func(path string, shape, size, edns int, cfg uint16, pad int) c08Case {
		return c08Case{
			Path: path, Shape: shape, Size: size, EDNS: edns, Cfg: cfg, Pad: pad,
			ShapeName: c08Shapes[shape].Name, EDNSName: c08EDNSSet[edns].Name,
		}
	}

	// Part 1: normalize() called directly.
	seams := c08NormSeams()
	seamByName := map[string]c08Norm{}
	for _, s := range seams {
		seamByName[s.Name] = s
	}
	vrt.Part(r, "normalize", func(emit func(c08Case)) {
		for shape := range c08Shapes {
			for _, size := range sizes {
				for edns, e := range c08EDNSSet {
					for _, s := range seams {
						for _, cfg := range cfgsFor(s.c08Transport, size) {
							for _, pad := range pads(s.c08Transport, e, size) {
								emit(mkCase(s.Name, shape, size, edns, cfg, pad))
							}
						}
					}
				}
			}
		}
	}, func(c c08Case) []vrt.Finding {
		s, ok := seamByName[c.Path]
		if !ok {
			vrt.Fatalf("c08: unknown seam %q", c.Path)
		}
		e := c08EDNSSet[c.EDNS]
		b := c08BuildResp(c.Shape, c.Size)
		h := b.msg
		resp := c08Clone(h)
		// The real code sees a request that came off the wire.
		req := c08Reparse(c08NewReq(e))
		c08SeedRand(c.Pad)
		var obs c08Obs
		maxSize := c.Cfg
		if !s.HasCfg {
			maxSize = dns.MaxMsgSize
		}
		if p := vrt.Catch(func() { normalize(s.network, s.proto, req, resp, maxSize) }); p != "" {
			obs.Panicked = p
			obs.Why = "panic"
		} else if wire, err := resp.Pack(); err != nil {
			obs.Why = "pack-error"
		} else {
			obs.Sent, obs.Wire = true, wire
		}
		r.Trans(1)

		return c08Oracle(r, s.c08Transport, c, e, h, b.size, obs)
	})

	// Part 2: the real write paths, bytes captured from fake connections.
	rig := newC08Rig()
	vrt.Part(r, "write", func(emit func(c08Case)) {
		for shape := range c08Shapes {
			for _, size := range sizes {
				for edns, e := range c08EDNSSet {
					for _, p := range c08Paths {
						for _, cfg := range cfgsFor(p.c08Transport, size) {
							for _, pad := range pads(p.c08Transport, e, size) {
								emit(mkCase(p.Name, shape, size, edns, cfg, pad))
							}
						}
					}
				}
			}
		}
	}, func(c c08Case) []vrt.Finding {
		p, ok := c08PathByName[c.Path]
		if !ok {
			vrt.Fatalf("c08: unknown path %q", c.Path)
		}
		e := c08EDNSSet[c.EDNS]
		b := c08BuildResp(c.Shape, c.Size)
		h := b.msg
		reqBytes, err := c08NewReq(e).Pack()
		if err != nil {
			vrt.Fatalf("c08: packing request: %v", err)
		}
		rig.handler.resp = c08Clone(h)
		rig.metrics.panicked = ""
		c08SeedRand(c.Pad)
		obs := p.run(rig, c, reqBytes)
		obs.Panicked = rig.metrics.panicked
		r.Trans(1)

		return c08Oracle(r, p.c08Transport, c, e, h, b.size, obs)
	})

	// Part 3: responses the server makes up itself, because the handler gave
	// up without writing, failed, or the server rejected or ignored the query.
	// The same clauses apply to whatever is sent then; sending nothing is fine.
	vrt.Part(r, "server-made", func(emit func(c08Case)) {
		for _, behave := range c08Behaviours {
			for edns, e := range c08EDNSSet {
				for _, p := range c08Paths {
					if !c08BehaviourReachable(p.Name, behave) {
						continue
					}
					for _, cfg := range cfgsFor(p.c08Transport, 0) {
						for _, pad := range pads(p.c08Transport, e, 0) {
							c := mkCase(p.Name, 0, 0, edns, cfg, pad)
							c.Behave, c.ShapeName = behave, "-"
							emit(c)
						}
					}
				}
			}
		}
	}, func(c c08Case) []vrt.Finding {
		p, ok := c08PathByName[c.Path]
		if !ok {
			vrt.Fatalf("c08: unknown path %q", c.Path)
		}
		e := c08EDNSSet[c.EDNS]
		req := c08NewReq(e)
		mode := "write"
		switch c.Behave {
		case "silent", "error":
			mode = c.Behave
		case "qr":
			req.Response = true
		case "notimp":
			req.Opcode = dns.OpcodeStatus
		case "formerr":
			req.Question = append(req.Question, dns.Question{Name: "other.example.org.", Qtype: dns.TypeA, Qclass: dns.ClassINET})
		default:
			vrt.Fatalf("c08: unknown behaviour %q", c.Behave)
		}
		reqBytes, err := req.Pack()
		if err != nil {
			vrt.Fatalf("c08: packing request: %v", err)
		}
		// What the handler would have written is an empty reply: nothing can
		// be "dropped" from it.
		h := &dns.Msg{}
		h.SetReply(c08NewReq(e))
		rig.handler.resp = c08Clone(h)
		rig.handler.mode = mode
		defer func() { rig.handler.mode = "write" }()
		rig.metrics.panicked = ""
		c08SeedRand(c.Pad)
		obs := p.run(rig, c, reqBytes)
		obs.Panicked = rig.metrics.panicked
		r.Trans(1)

		return c08Oracle(r, p.c08Transport, c, e, h, 0, obs)
	})

	// Part 4: several queries on ONE TCP / DoT connection, served by the real
	// connection loop.  Every response is judged by the same oracle for the
	// query it answers: the statement's "returned only to a client that sent
	// it" is read per query (as the code's own comment and tests read it), so
	// nothing of an earlier query of the connection may show in a later
	// response.
	histLen := vrt.Pick(r, 3, 4)
	r.Bound("tcp_conn_history_max_queries", histLen)
	r.Bound("tcp_conn_history_alphabet", len(c08HistAlphabet))
	vrt.Part(r, "tcp-conn-history", func(emit func(c08HistCase)) {
		vrt.Sequences(len(c08HistAlphabet), 1, histLen, func(seq []int) {
			for _, path := range []string{"tcp", "dot"} {
				emit(c08HistCase{Path: path, Seq: append([]int(nil), seq...), Names: c08HistNames(seq)})
			}
		})
	}, func(c c08HistCase) []vrt.Finding {
		return c08RunHist(r, rig, c)
	})

	r.Finish()
	os.Exit(0)
}

// c08HistSym is one query of a connection history: the client's EDNS setting
// and the handler's answer to it.
type c08HistSym struct {
	EDNS  string
	Shape int
	Size  int
}

// c08HistAlphabet is the alphabet of part tcp-conn-history: 6 EDNS settings x
// {small answer without OPT, answer with the handler's own OPT}.
var c08HistAlphabet = func() (a []c08HistSym) {
	for _, e := range []string{"absent", "udp1232", "udp1232+ka", "udp1232+pad", "udp512+pad+ka", "udp512+do"} {
		a = append(a, c08HistSym{EDNS: e, Shape: 0, Size: 300}, c08HistSym{EDNS: e, Shape: 3, Size: 500})
	}

	return a
}()

// c08HistCase is one execution of part tcp-conn-history.
type c08HistCase struct {
	Path  string   `json:"path"`
	Seq   []int    `json:"seq"`
	Names []string `json:"names"`
}

func c08HistNames(seq []int) (names []string) {
	for _, i := range seq {
		sym := c08HistAlphabet[i]
		names = append(names, sym.EDNS+"/"+c08Shapes[sym.Shape].Name)
	}

	return names
}

func c08EDNSByName(name string) (idx int, e c08EDNS) {
	for i, e := range c08EDNSSet {
		if e.Name == name {
			return i, e
		}
	}
	vrt.Fatalf("c08: no EDNS setting %q", name)

	return 0, c08EDNS{}
}

func c08RunHist(r *vrt.Run, rig *c08Rig, c c08HistCase) (fs []vrt.Finding) {
	p, ok := c08PathByName[c.Path]
	if !ok || (c.Path != "tcp" && c.Path != "dot") {
		vrt.Fatalf("c08: bad history path %q", c.Path)
	}
	s := rig.plain
	if c.Path == "dot" {
		s = rig.dot
	}
	var queries [][]byte
	var ednss []c08EDNS
	var ednsIdx []int
	var hs []c08Built
	var seq []*dns.Msg
	for i, si := range c.Seq {
		if si < 0 || si >= len(c08HistAlphabet) {
			vrt.Fatalf("c08: bad history symbol %d", si)
		}
		sym := c08HistAlphabet[si]
		idx, e := c08EDNSByName(sym.EDNS)
		req := c08NewReq(e)
		req.Id = uint16(0x1000 + i)
		b, err := req.Pack()
		if err != nil {
			vrt.Fatalf("c08: packing request: %v", err)
		}
		built := c08BuildResp(sym.Shape, sym.Size)
		queries, ednss, ednsIdx, hs = append(queries, b), append(ednss, e), append(ednsIdx, idx), append(hs, built)
		seq = append(seq, c08Clone(built.msg))
	}
	rig.handler.mode, rig.handler.seq = "seq", seq
	defer func() { rig.handler.mode, rig.handler.seq = "write", nil }()
	rig.metrics.panicked = ""
	c08SeedRand(1)
	written, _ := c08ServeTCPConn(s, queries)
	r.Trans(len(queries))

	// Split what was written into frames; the responses come in the order of
	// the queries, because each query is sent after the previous response.
	var frames [][]byte
	rest := written
	for len(rest) >= 2 {
		l := int(rest[0])<<8 | int(rest[1])
		if len(rest) < 2+l {
			break
		}
		frames = append(frames, rest[2:2+l])
		rest = rest[2+l:]
	}
	for i := range c.Seq {
		cc := c08Case{
			Path: c.Path, Shape: c08HistAlphabet[c.Seq[i]].Shape, Size: hs[i].size, EDNS: ednsIdx[i], Cfg: dns.MaxMsgSize, Pad: 1,
			ShapeName: fmt.Sprintf("%s [query %d of %d on one connection: %v]", c08Shapes[c08HistAlphabet[c.Seq[i]].Shape].Name, i+1, len(c.Seq), c.Names),
			EDNSName:  ednss[i].Name,
		}
		obs := c08Obs{Why: "conn-closed", Panicked: rig.metrics.panicked}
		if i < len(frames) {
			obs = c08Obs{Sent: true, Wire: frames[i], Panicked: rig.metrics.panicked}
			if out := (&dns.Msg{}); out.Unpack(frames[i]) == nil && out.Id != uint16(0x1000+i) {
				// Not a clause of C08 (C01 judges matching); the responses
				// are judged in the order they were written.
				r.Count("hint:tcp-conn-response-id-differs", 1)
			}
		}
		for _, f := range c08Oracle(r, p.c08Transport, cc, ednss[i], hs[i].msg, hs[i].size, obs) {
			if i > 0 && f.Key == "keepalive/client-did-not-send" {
				// The same clause, but caused by the history of the
				// connection: a signature of its own.
				f.Key = "tcp-conn/keepalive-without-option-in-this-query"
			}
			fs = append(fs, f)
		}
	}
	if len(rest) > 0 || len(frames) > len(c.Seq) {
		r.Count("hint:tcp-conn-extra-bytes", 1)
	}

	return fs
}

// c08Behaviours are the situations of part server-made.
var c08Behaviours = []string{"silent", "error", "qr", "notimp", "formerr"}

// c08BehaviourReachable reports whether a behaviour can be reached on a path.
// The DNSCrypt library itself refuses messages with the QR bit or with other
// than one question before it calls the repository's handler, so these never
// reach dnsCryptHandler.ServeDNS.
func c08BehaviourReachable(path, behave string) bool {
	if path == "dnscrypt-udp" || path == "dnscrypt-tcp" {
		return behave != "qr" && behave != "formerr"
	}

	return true
}

// c08Clone returns a copy of m that the code under test may modify: fresh
// section slices, OPT records deep-copied.  The other records are shared; the
// write paths do not modify them.
func c08Clone(m *dns.Msg) (c *dns.Msg) {
	cp := *m
	c = &cp
	c.Question = append([]dns.Question(nil), m.Question...)
	c.Answer = append([]dns.RR(nil), m.Answer...)
	c.Ns = append([]dns.RR(nil), m.Ns...)
	c.Extra = append([]dns.RR(nil), m.Extra...)
	for i, rr := range c.Extra {
		if rr.Header().Rrtype == dns.TypeOPT {
			c.Extra[i] = dns.Copy(rr)
		}
	}

	return c
}

// c08Reparse packs and unpacks m, as the servers do with a client's query.
func c08Reparse(m *dns.Msg) (out *dns.Msg) {
	b, err := m.Pack()
	if err != nil {
		vrt.Fatalf("c08: packing request: %v", err)
	}
	out = &dns.Msg{}
	if err = out.Unpack(b); err != nil {
		vrt.Fatalf("c08: unpacking request: %v", err)
	}

	return out
}
