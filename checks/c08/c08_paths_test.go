//go:build verif

package dnsserver

// Drivers of the real write paths for C08.  Every driver hands the client's
// query bytes to the function the server's accept loop would call for one
// message and captures what is written to a fake connection.

import (
	"bytes"
	"context"
	"errors"
	"io"
	"net"
	"net/http"
	"net/http/httptest"
	"sync"
	"time"

	"github.com/AdguardTeam/AdGuardDNS/internal/dnsserver/netext"
	"github.com/AdguardTeam/AdGuardDNS/internal/dnsserver/zzverif/vrt"
	"github.com/miekg/dns"
	"github.com/quic-go/quic-go"
)

// c08Handler writes the scripted response, or gives up the way mode says:
// "silent" returns nil without writing (as the rate-limit middleware does for a
// dropped query), "error" returns an error without writing.
type c08Handler struct {
	resp *dns.Msg
	mode string

	// next is the handler that mode "next" passes the query on to (the real
	// forwarding handler in part forward).
	next Handler

	// seq are the responses of mode "seq", one per query in the order of
	// arrival (part tcp-conn-history).
	seq []*dns.Msg
}

// ServeDNS implements the [Handler] interface for *c08Handler.
func (h *c08Handler) ServeDNS(ctx context.Context, rw ResponseWriter, req *dns.Msg) (err error) {
	switch h.mode {
	case "silent":
		return nil
	case "error":
		return errors.New("c08: scripted handler error")
	case "next":
		return h.next.ServeDNS(ctx, rw, req)
	case "seq":
		if len(h.seq) == 0 {
			return errors.New("c08: more queries than scripted responses")
		}
		resp := h.seq[0]
		h.seq = h.seq[1:]
		resp.Id = req.Id

		return rw.WriteMsg(ctx, req, resp)
	default:
		return rw.WriteMsg(ctx, req, h.resp)
	}
}

// c08Metrics records recovered panics.
type c08Metrics struct {
	EmptyMetricsListener
	panicked string
}

// OnPanic implements the [MetricsListener] interface for *c08Metrics.
func (m *c08Metrics) OnPanic(_ context.Context, v any) {
	m.panicked = "panic: " + vrtSprint(v)
}

func vrtSprint(v any) string {
	if err, ok := v.(error); ok {
		return err.Error()
	}
	if s, ok := v.(string); ok {
		return s
	}

	return "non-string panic value"
}

var (
	c08UDPLocal  = &net.UDPAddr{IP: net.IP{192, 0, 2, 53}, Port: 53}
	c08UDPRemote = &net.UDPAddr{IP: net.IP{198, 51, 100, 7}, Port: 40000}
	c08TCPLocal  = &net.TCPAddr{IP: net.IP{192, 0, 2, 53}, Port: 53}
	c08TCPRemote = &net.TCPAddr{IP: net.IP{198, 51, 100, 7}, Port: 40000}
)

// c08PacketConn is a fake net.PacketConn that captures datagrams.
type c08PacketConn struct {
	sent [][]byte
}

func (c *c08PacketConn) ReadFrom(_ []byte) (n int, addr net.Addr, err error) { return 0, nil, io.EOF }
func (c *c08PacketConn) WriteTo(p []byte, _ net.Addr) (n int, err error) {
	c.sent = append(c.sent, bytes.Clone(p))

	return len(p), nil
}
func (c *c08PacketConn) Close() error                       { return nil }
func (c *c08PacketConn) LocalAddr() net.Addr                { return c08UDPLocal }
func (c *c08PacketConn) SetDeadline(_ time.Time) error      { return nil }
func (c *c08PacketConn) SetReadDeadline(_ time.Time) error  { return nil }
func (c *c08PacketConn) SetWriteDeadline(_ time.Time) error { return nil }

// c08Conn is a fake net.Conn that captures the written bytes.
type c08Conn struct {
	buf    bytes.Buffer
	closed bool
}

func (c *c08Conn) Read(_ []byte) (n int, err error)   { return 0, io.EOF }
func (c *c08Conn) Write(p []byte) (n int, err error)  { return c.buf.Write(p) }
func (c *c08Conn) Close() error                       { c.closed = true; return nil }
func (c *c08Conn) LocalAddr() net.Addr                { return c08TCPLocal }
func (c *c08Conn) RemoteAddr() net.Addr               { return c08TCPRemote }
func (c *c08Conn) SetDeadline(_ time.Time) error      { return nil }
func (c *c08Conn) SetReadDeadline(_ time.Time) error  { return nil }
func (c *c08Conn) SetWriteDeadline(_ time.Time) error { return nil }

// c08Stream is a fake quic.Stream: the query is read from it, the response
// is captured.
type c08Stream struct {
	quic.Stream
	in  *bytes.Reader
	out bytes.Buffer
}

func (s *c08Stream) Read(p []byte) (n int, err error)  { return s.in.Read(p) }
func (s *c08Stream) Write(p []byte) (n int, err error) { return s.out.Write(p) }
func (s *c08Stream) Close() error                      { return nil }
func (s *c08Stream) SetReadDeadline(_ time.Time) error { return nil }

// c08QUICConn is a fake quic.Connection: AcceptStream hands out the scripted
// streams and then reports that the peer has closed the connection; the first
// code the server closes the connection with is recorded.
type c08QUICConn struct {
	quic.Connection
	streams    []quic.Stream
	closedWith *quic.ApplicationErrorCode
}

func (c *c08QUICConn) AcceptStream(context.Context) (quic.Stream, error) {
	if len(c.streams) == 0 {
		return nil, &quic.ApplicationError{Remote: true, ErrorCode: 0}
	}
	st := c.streams[0]
	c.streams = c.streams[1:]

	return st, nil
}
func (c *c08QUICConn) ConnectionState() quic.ConnectionState { return quic.ConnectionState{} }

func (c *c08QUICConn) LocalAddr() net.Addr  { return c08UDPLocal }
func (c *c08QUICConn) RemoteAddr() net.Addr { return c08UDPRemote }
func (c *c08QUICConn) CloseWithError(code quic.ApplicationErrorCode, _ string) error {
	if c.closedWith == nil {
		c.closedWith = &code
	}

	return nil
}

// c08CryptRW is a fake dnscrypt.ResponseWriter: it captures the message the
// server hands to the DNSCrypt library for encryption.
type c08CryptRW struct {
	local, remote net.Addr
	msgs          []*dns.Msg
}

func (w *c08CryptRW) LocalAddr() net.Addr  { return w.local }
func (w *c08CryptRW) RemoteAddr() net.Addr { return w.remote }
func (w *c08CryptRW) WriteMsg(m *dns.Msg) error {
	w.msgs = append(w.msgs, m)

	return nil
}

// c08Rig holds one real server of every kind, sharing the scripted handler.
type c08Rig struct {
	handler *c08Handler
	metrics *c08Metrics

	plain *ServerDNS
	dot   *ServerDNS
	doq   *ServerQUIC
	doh   *ServerHTTPS
	crypt *ServerDNSCrypt
}

func newC08Rig() (rig *c08Rig) {
	rig = &c08Rig{handler: &c08Handler{}, metrics: &c08Metrics{}}
	base := func(name string) ConfigBase {
		return ConfigBase{Name: name, Addr: "192.0.2.53:53", Handler: rig.handler, Metrics: rig.metrics}
	}
	rig.plain = newServerDNS(ProtoDNS, ConfigDNS{ConfigBase: base("c08-dns"), MaxUDPRespSize: dns.MaxMsgSize})
	rig.dot = newServerDNS(ProtoDoT, ConfigDNS{ConfigBase: base("c08-dot")})
	rig.doq = NewServerQUIC(ConfigQUIC{ConfigBase: base("c08-doq")})
	rig.doh = NewServerHTTPS(ConfigHTTPS{ConfigBase: base("c08-doh")})
	rig.crypt = NewServerDNSCrypt(ConfigDNSCrypt{ConfigBase: base("c08-dnscrypt")})

	return rig
}

// reqCtx is what the accept loops build for one message.
func c08ReqCtx(s *ServerBase) (ctx context.Context, cancel context.CancelFunc) {
	ctx, cancel = s.requestContext()
	ctx = ContextWithRequestInfo(ctx, &RequestInfo{StartTime: time.Now()})

	return ctx, cancel
}

// c08Path is one write path.
type c08Path struct {
	c08Transport
	run func(rig *c08Rig, c c08Case, req []byte) (obs c08Obs)
}

// c08StreamObs turns the bytes written to a stream into an observation: the
// message is everything after the two length octets, whatever they say.
func c08StreamObs(written []byte, why string) (obs c08Obs) {
	if len(written) == 0 {
		return c08Obs{Why: why}
	}
	if len(written) < 2 {
		return c08Obs{Why: "short-write"}
	}

	return c08Obs{Sent: true, Wire: written[2:]}
}

// c08GatedConn is an in-memory net.Conn for the connection-level seam
// serveTCPConn: it delivers the framed queries one after the other, each only
// after the response to the previous one has been written completely (or the
// connection has been closed), then EOF.  Everything written is recorded.
type c08GatedConn struct {
	mu     sync.Mutex
	cond   *sync.Cond
	frames [][]byte
	cur    int
	off    int
	out    bytes.Buffer
	closed bool
}

func newC08GatedConn(queries [][]byte) (c *c08GatedConn) {
	c = &c08GatedConn{}
	c.cond = sync.NewCond(&c.mu)
	for _, q := range queries {
		f := make([]byte, 2+len(q))
		f[0], f[1] = byte(len(q)>>8), byte(len(q))
		copy(f[2:], q)
		c.frames = append(c.frames, f)
	}

	return c
}

// responses returns the number of complete response frames written so far.
// c.mu must be held.
func (c *c08GatedConn) responses() (n int) {
	b := c.out.Bytes()
	for len(b) >= 2 {
		l := int(b[0])<<8 | int(b[1])
		if len(b) < 2+l {
			break
		}
		b = b[2+l:]
		n++
	}

	return n
}

func (c *c08GatedConn) Read(p []byte) (n int, err error) {
	c.mu.Lock()
	defer c.mu.Unlock()
	if c.cur < len(c.frames) && c.off == 0 {
		// The next query is sent when the previous ones have been answered.
		deadline := time.Now().Add(120 * time.Second)
		for !c.closed && c.responses() < c.cur {
			if time.Now().After(deadline) {
				vrt.Fatalf("c08: no response to query %d of the connection within 120 s", c.cur)
			}
			c08CondWait(c.cond, time.Second)
		}
	}
	if c.closed {
		return 0, net.ErrClosed
	}
	if c.cur >= len(c.frames) {
		return 0, io.EOF
	}
	n = copy(p, c.frames[c.cur][c.off:])
	c.off += n
	if c.off == len(c.frames[c.cur]) {
		c.cur, c.off = c.cur+1, 0
	}

	return n, nil
}

// c08CondWait waits on cond, but not longer than d.
func c08CondWait(cond *sync.Cond, d time.Duration) {
	t := time.AfterFunc(d, cond.Broadcast)
	cond.Wait()
	t.Stop()
}

func (c *c08GatedConn) Write(p []byte) (n int, err error) {
	c.mu.Lock()
	defer c.mu.Unlock()
	n, err = c.out.Write(p)
	c.cond.Broadcast()

	return n, err
}

func (c *c08GatedConn) Close() error {
	c.mu.Lock()
	defer c.mu.Unlock()
	c.closed = true
	c.cond.Broadcast()

	return nil
}
func (c *c08GatedConn) LocalAddr() net.Addr                { return c08TCPLocal }
func (c *c08GatedConn) RemoteAddr() net.Addr               { return c08TCPRemote }
func (c *c08GatedConn) SetDeadline(_ time.Time) error      { return nil }
func (c *c08GatedConn) SetReadDeadline(_ time.Time) error  { return nil }
func (c *c08GatedConn) SetWriteDeadline(_ time.Time) error { return nil }

// c08ServeTCPConn runs the real connection loop serveTCPConn on a connection
// that carries the given queries and returns everything that was written and
// whether the server has closed the connection before the client's EOF.
func c08ServeTCPConn(s *ServerDNS, queries [][]byte) (written []byte, closedEarly bool) {
	conn := newC08GatedConn(queries)
	s.started = true
	s.wg.Add(1)
	ctx := ContextWithServerInfo(context.Background(), &ServerInfo{Name: s.name, Addr: s.addr, Proto: s.proto})
	s.serveTCPConn(ctx, conn)
	conn.mu.Lock()
	defer conn.mu.Unlock()

	return bytes.Clone(conn.out.Bytes()), conn.cur < len(conn.frames) || conn.responses() < len(conn.frames)
}

func c08RunTCP(s *ServerDNS, req []byte) (obs c08Obs) {
	written, closedEarly := c08ServeTCPConn(s, [][]byte{req})
	why := "nothing-written"
	if closedEarly {
		why = "conn-closed"
	}

	return c08StreamObs(written, why)
}

func c08RunCrypt(rig *c08Rig, local, remote net.Addr, reqBytes []byte) (obs c08Obs) {
	req := &dns.Msg{}
	if err := req.Unpack(reqBytes); err != nil {
		vrt.Fatalf("c08: unpacking request: %v", err)
	}
	rw := &c08CryptRW{local: local, remote: remote}
	h := &dnsCryptHandler{srv: rig.crypt}
	if err := h.ServeDNS(rw, req); err != nil {
		return c08Obs{Why: "handler-error"}
	}
	if len(rw.msgs) != 1 {
		return c08Obs{Why: "nothing-written"}
	}
	// The library packs the message it is given (server.go: encrypt) after
	// possibly truncating it further.
	wire, err := rw.msgs[0].Pack()
	if err != nil {
		return c08Obs{Why: "pack-error"}
	}

	return c08Obs{Sent: true, Wire: wire}
}

var c08Paths = []c08Path{{
	c08Transport: c08Transport{Name: "udp", Datagram: true, HasCfg: true},
	run: func(rig *c08Rig, c c08Case, req []byte) (obs c08Obs) {
		s := rig.plain
		s.conf.MaxUDPRespSize = c.Cfg
		ctx, cancel := c08ReqCtx(s.ServerBase)
		defer cancel()
		pc := &c08PacketConn{}
		s.wg.Add(1)
		s.serveUDPPacket(ctx, req, pc, netext.NewSimplePacketSession(c08UDPLocal, c08UDPRemote))
		switch len(pc.sent) {
		case 0:
			return c08Obs{Why: "nothing-written"}
		case 1:
			return c08Obs{Sent: true, Wire: pc.sent[0]}
		default:
			return c08Obs{Why: "several-datagrams"}
		}
	},
}, {
	c08Transport: c08Transport{Name: "tcp"},
	run: func(rig *c08Rig, _ c08Case, req []byte) (obs c08Obs) {
		return c08RunTCP(rig.plain, req)
	},
}, {
	c08Transport: c08Transport{Name: "dot", Encrypted: true, PadEnum: true},
	run: func(rig *c08Rig, _ c08Case, req []byte) (obs c08Obs) {
		return c08RunTCP(rig.dot, req)
	},
}, {
	c08Transport: c08Transport{Name: "doq", Encrypted: true, PadEnum: true},
	run: func(rig *c08Rig, _ c08Case, req []byte) (obs c08Obs) {
		// The real serveQUICConn serves one connection whose only stream
		// carries the query (the highest seam that does not need quic-go's
		// sockets); it returns when the stream has been served.
		s := rig.doq
		s.started = true
		ctx := ContextWithServerInfo(context.Background(), &ServerInfo{Name: s.name, Addr: s.addr, Proto: s.proto})
		framed := make([]byte, 2+len(req))
		framed[0], framed[1] = byte(len(req)>>8), byte(len(req))
		copy(framed[2:], req)
		st := &c08Stream{in: bytes.NewReader(framed)}
		conn := &c08QUICConn{streams: []quic.Stream{st}}
		_ = s.serveQUICConn(ctx, conn)
		why := "nothing-written"
		if conn.closedWith != nil && *conn.closedWith != DOQCodeNoError {
			why = "conn-closed"
		}

		return c08StreamObs(st.out.Bytes(), why)
	},
}, {
	c08Transport: c08Transport{Name: "doh", Encrypted: true, PadEnum: true},
	run: func(rig *c08Rig, _ c08Case, req []byte) (obs c08Obs) {
		h := &httpHandler{srv: rig.doh, localAddr: c08TCPLocal}
		hr := httptest.NewRequest(http.MethodPost, "https://dns.example"+PathDoH, bytes.NewReader(req))
		hr.Header.Set("Content-Type", MimeTypeDoH)
		hr.RemoteAddr = "198.51.100.7:40000"
		rec := httptest.NewRecorder()
		h.ServeHTTP(rec, hr)
		if rec.Code != http.StatusOK {
			return c08Obs{Why: "http-" + http.StatusText(rec.Code)}
		}

		return c08Obs{Sent: true, Wire: rec.Body.Bytes()}
	},
}, {
	c08Transport: c08Transport{Name: "dnscrypt-udp", Datagram: true, Encrypted: true},
	run: func(rig *c08Rig, _ c08Case, req []byte) (obs c08Obs) {
		return c08RunCrypt(rig, c08UDPLocal, c08UDPRemote, req)
	},
}, {
	c08Transport: c08Transport{Name: "dnscrypt-tcp", Encrypted: true},
	run: func(rig *c08Rig, _ c08Case, req []byte) (obs c08Obs) {
		return c08RunCrypt(rig, c08TCPLocal, c08TCPRemote, req)
	},
}}

var c08PathByName = func() (m map[string]c08Path) {
	m = map[string]c08Path{}
	for _, p := range c08Paths {
		m[p.Name] = p
	}

	return m
}()
