// Command instr writes an instrumented copy of a Go source file:
//
//  1. import "sync" -> .../zzverif/xsync (named sync), "sync/atomic" ->
//     .../zzverif/xatomic (named atomic);
//  2. `go f(a, b)` -> arguments evaluated in place, the call spawned through
//     xsched.Spawn (a schedulable task under the explorer, a plain goroutine
//     otherwise);
//  3. with -points=F1,F2: xsched.Yield("file:line") before every statement
//     that contains a call inside the named functions / methods.
//
// Only the standard library is used.
package main

import (
	"flag"
	"fmt"
	"go/ast"
	"go/format"
	"go/parser"
	"go/token"
	"os"
	"path/filepath"
	"strconv"
	"strings"
)

const base = "github.com/AdguardTeam/AdGuardDNS/internal/dnsserver/zzverif/"

func main() {
	in := flag.String("in", "", "input file")
	out := flag.String("out", "", "output file")
	points := flag.String("points", "", "comma-separated function names to add yield points to")
	nogo := flag.Bool("nogo", false, "do not rewrite go statements")
	nosync := flag.Bool("nosync", false, "do not redirect the sync and sync/atomic imports")
	sema := flag.Bool("sema", false, "rewrite syncutil.NewChanSemaphore(n) into the modelled sync.NewSemaphore(n) (needs the sync redirect)")
	submit := flag.Bool("submit", false, "rewrite X.Submit(f) worker-pool calls into xsched.SubmitTask(label, f)")
	flag.Parse()
	fset := token.NewFileSet()
	f, err := parser.ParseFile(fset, *in, nil, parser.ParseComments)
	if err != nil {
		fmt.Fprintln(os.Stderr, err)
		os.Exit(1)
	}
	short := filepath.Base(*in)
	needSched := false

	// 1. imports.
	for _, imp := range f.Imports {
		p, _ := strconv.Unquote(imp.Path.Value)
		if *nosync {
			break
		}
		switch p {
		case "sync":
			imp.Path.Value = strconv.Quote(base + "xsync")
			if imp.Name == nil {
				imp.Name = ast.NewIdent("sync")
			}
		case "sync/atomic":
			imp.Path.Value = strconv.Quote(base + "xatomic")
			if imp.Name == nil {
				imp.Name = ast.NewIdent("atomic")
			}
		}
	}

	pts := map[string]bool{}
	for _, n := range strings.Split(*points, ",") {
		if n != "" {
			pts[n] = true
		}
	}

	label := func(pos token.Pos) *ast.BasicLit {
		p := fset.Position(pos)

		return &ast.BasicLit{Kind: token.STRING, Value: strconv.Quote(fmt.Sprintf("%s:%d", short, p.Line))}
	}
	selAt := func(name string, pos token.Pos) ast.Expr {
		return &ast.SelectorExpr{X: &ast.Ident{Name: "zzxsched", NamePos: pos}, Sel: &ast.Ident{Name: name, NamePos: pos}}
	}
	sel := func(name string) ast.Expr { return selAt(name, token.NoPos) }

	// 2. go statements.
	var rewriteBlock func(list []ast.Stmt) []ast.Stmt
	counter := 0
	rewriteGo := func(g *ast.GoStmt) ast.Stmt {
		needSched = true
		counter++
		call := g.Call
		var stmts []ast.Stmt
		fn := call.Fun
		if _, isLit := fn.(*ast.FuncLit); !isLit {
			name := ast.NewIdent(fmt.Sprintf("zzf%d", counter))
			stmts = append(stmts, &ast.AssignStmt{Lhs: []ast.Expr{name}, Tok: token.DEFINE, Rhs: []ast.Expr{fn}})
			fn = name
		}
		var args []ast.Expr
		for i, a := range call.Args {
			name := ast.NewIdent(fmt.Sprintf("zza%d_%d", counter, i))
			stmts = append(stmts, &ast.AssignStmt{Lhs: []ast.Expr{name}, Tok: token.DEFINE, Rhs: []ast.Expr{a}})
			args = append(args, name)
		}
		inner := &ast.CallExpr{Fun: fn, Args: args, Ellipsis: call.Ellipsis}
		if call.Ellipsis == token.NoPos {
			inner.Ellipsis = token.NoPos
		}
		body := &ast.FuncLit{
			Type: &ast.FuncType{Params: &ast.FieldList{}},
			Body: &ast.BlockStmt{List: []ast.Stmt{&ast.ExprStmt{X: inner}}},
		}
		spawnArgs := []ast.Expr{label(g.Pos()), body}
		for _, a := range args {
			if call.Ellipsis != token.NoPos && a == args[len(args)-1] {
				break
			}
			spawnArgs = append(spawnArgs, a)
		}
		stmts = append(stmts, &ast.ExprStmt{X: &ast.CallExpr{Fun: sel("Spawn"), Args: spawnArgs}})

		return &ast.BlockStmt{List: stmts}
	}

	hasCall := func(s ast.Stmt) bool {
		found := false
		ast.Inspect(s, func(n ast.Node) bool {
			switch n.(type) {
			case *ast.FuncLit:
				return false
			case *ast.CallExpr:
				found = true
			}

			return !found
		})

		return found
	}

	inPoints := false
	rewriteBlock = func(list []ast.Stmt) []ast.Stmt {
		var out []ast.Stmt
		for _, s := range list {
			if g, ok := s.(*ast.GoStmt); ok && !*nogo {
				// Rewrite nested statements of a func literal first.
				ast.Inspect(g.Call, func(n ast.Node) bool {
					if b, ok := n.(*ast.BlockStmt); ok {
						b.List = rewriteBlock(b.List)

						return false
					}

					return true
				})
				out = append(out, rewriteGo(g))

				continue
			}
			if cc, ok := s.(*ast.CaseClause); ok {
				cc.Body = rewriteBlock(cc.Body)
				out = append(out, s)

				continue
			}
			if cc, ok := s.(*ast.CommClause); ok {
				cc.Body = rewriteBlock(cc.Body)
				out = append(out, s)

				continue
			}
			if inPoints {
				switch s.(type) {
				case *ast.DeclStmt, *ast.LabeledStmt, *ast.BranchStmt, *ast.EmptyStmt:
				default:
					if hasCall(s) {
						needSched = true
						lb := label(s.Pos())
						lb.ValuePos = s.Pos()
						out = append(out, &ast.ExprStmt{X: &ast.CallExpr{Fun: selAt("Yield", s.Pos()), Lparen: s.Pos(), Args: []ast.Expr{lb}, Rparen: s.Pos()}})
					}
				}
			}
			// Recurse into nested blocks.
			ast.Inspect(s, func(n ast.Node) bool {
				switch b := n.(type) {
				case *ast.BlockStmt:
					b.List = rewriteBlock(b.List)

					return false
				case *ast.CaseClause:
					b.Body = rewriteBlock(b.Body)

					return false
				case *ast.CommClause:
					b.Body = rewriteBlock(b.Body)

					return false
				}

				return true
			})
			out = append(out, s)
		}

		return out
	}

	if *sema {
		// Channel semaphores become modelled ones: a task blocked in a real
		// channel operation would stall the cooperative scheduler.
		ast.Inspect(f, func(n ast.Node) bool {
			call, ok := n.(*ast.CallExpr)
			if !ok {
				return true
			}
			se, ok := call.Fun.(*ast.SelectorExpr)
			if !ok || se.Sel.Name != "NewChanSemaphore" {
				return true
			}
			if x, isID := se.X.(*ast.Ident); isID && x.Name == "syncutil" {
				x.Name = "sync"
				se.Sel.Name = "NewSemaphore"
			}

			return true
		})
	}

	if *submit {
		// 4. worker-pool submissions become schedulable tasks.
		ast.Inspect(f, func(n ast.Node) bool {
			call, ok := n.(*ast.CallExpr)
			if !ok || len(call.Args) != 1 {
				return true
			}
			se, ok := call.Fun.(*ast.SelectorExpr)
			if !ok || se.Sel.Name != "Submit" {
				return true
			}
			needSched = true
			call.Args = []ast.Expr{label(call.Pos()), call.Args[0]}
			call.Fun = sel("SubmitTask")

			return true
		})
	}

	for _, d := range f.Decls {
		fd, ok := d.(*ast.FuncDecl)
		if !ok || fd.Body == nil {
			continue
		}
		inPoints = pts[fd.Name.Name]
		fd.Body.List = rewriteBlock(fd.Body.List)
		inPoints = false
	}

	if needSched {
		// Add the import of xsched under a name that cannot clash.
		spec := &ast.ImportSpec{Name: ast.NewIdent("zzxsched"), Path: &ast.BasicLit{Kind: token.STRING, Value: strconv.Quote(base + "xsched")}}
		added := false
		for _, d := range f.Decls {
			if gd, ok := d.(*ast.GenDecl); ok && gd.Tok == token.IMPORT {
				gd.Specs = append(gd.Specs, spec)
				if gd.Lparen == token.NoPos {
					gd.Lparen = gd.Pos()
					gd.Rparen = gd.End()
				}
				added = true

				break
			}
		}
		if !added {
			f.Decls = append([]ast.Decl{&ast.GenDecl{Tok: token.IMPORT, Specs: []ast.Spec{spec}}}, f.Decls...)
		}
		f.Imports = append(f.Imports, spec)
	}

	if err = os.MkdirAll(filepath.Dir(*out), 0o755); err != nil {
		fmt.Fprintln(os.Stderr, err)
		os.Exit(1)
	}
	w, err := os.Create(*out)
	if err != nil {
		fmt.Fprintln(os.Stderr, err)
		os.Exit(1)
	}
	defer w.Close()
	// Comments are dropped from the instrumented copy: positions of inserted
	// nodes would otherwise scramble them.
	f.Comments = nil
	if err = format.Node(w, fset, f); err != nil {
		fmt.Fprintln(os.Stderr, err)
		os.Exit(1)
	}
}
