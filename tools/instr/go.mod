module verif/tools/instr

go 1.23
